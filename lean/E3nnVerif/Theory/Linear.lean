import E3nnVerif.Sound.Tensor
import E3nnVerif.Sound.SExpr
import E3nnVerif.Model.LinearSpec
import Mathlib.Algebra.BigOperators.Ring.Finset
import Mathlib.Algebra.BigOperators.Intervals
/-
Helper lemmas for C08 (o3.Linear):
  * naturality of the entry-wise specification `blockSpec` (symbolic value evaluated at a real point = real value),
  * `sumK` over `List.range` is a `Finset.range` sum,
  * the real-valued block map `linearSpecR` / `biasR` / `fullSpecR` on structured features and `blockSpec = flatten ∘ fullSpecR ∘ unflatten`,
  * offset arithmetic: `locate` inverts `offsetOf + position`.
-/
set_option linter.unnecessarySeqFocus false
namespace E3nnVerif.Model.Lin
open E3nnVerif.Exact E3nnVerif.IR

/-! ### naturality of `blockSpec` -/

section natural
variable (env : ℕ → ℝ)
local notation "φ" => Poly.eval env

theorem phi_sumK_map {α : Type} (l : List α) (f : α → Poly) :
    φ (sumK (l.map f)) = sumK (l.map fun a => φ (f a)) := by
  rw [phi_sumK, List.map_map]; rfl

theorem linEntry_natural (c : Cfg) (b yc io w i : ℕ) :
    φ (linEntry c Poly.var b yc io w i) = linEntry (K := ℝ) c env b yc io w i := by
  unfold linEntry
  rw [phi_sumK_map]
  congr 1
  apply List.map_congr_left; intro kk _
  simp only
  split
  · rw [Poly.eval_hmul, phi_ofC, phi_sumK_map]
    congr 2
    apply List.map_congr_left; intro xc _
    rw [phi_sumK_map]
    congr 1
    apply List.map_congr_left; intro u _
    simp
  · exact phi_zero env

theorem biasEntry_natural (c : Cfg) (yc io q : ℕ) :
    φ (biasEntry c Poly.var yc io q) = biasEntry (K := ℝ) c env yc io q := by
  unfold biasEntry
  split
  · simp
  · exact phi_zero env

/-- **naturality of the entry-wise specification** -/
theorem blockSpec_natural (c : Cfg) :
    (blockSpec c Poly.var).map φ = blockSpec (K := ℝ) c env := by
  unfold blockSpec
  simp only [List.map_map]
  apply List.map_congr_left; intro t _
  simp only [Function.comp, Poly.eval_hadd, linEntry_natural, biasEntry_natural]

/-- equal coefficient polynomials ⇒ equal values at every real point -/
theorem map_eval_eq_of_polysEq (a b : List Poly) (h : polysEq a b = true) : a.map φ = b.map φ := by
  simp only [polysEq, Bool.and_eq_true, beq_iff_eq, List.all_eq_true] at h
  obtain ⟨hlen, hall⟩ := h
  induction a generalizing b with
  | nil => cases b with
    | nil => rfl
    | cons _ _ => simp at hlen
  | cons x xs ih => cases b with
    | nil => simp at hlen
    | cons y ys =>
      simp only [List.length_cons, Nat.add_right_cancel_iff] at hlen
      simp only [List.zipWith_cons_cons, List.mem_cons, forall_eq_or_imp, id] at hall
      simp only [List.map_cons]
      rw [Poly.eval_eq_of_beq env hall.1, ih ys hlen hall.2]

/-- the IR rendering of the specification computes the entry-wise formula on all real inputs (from the kernel check) -/
theorem specProg_eq_blockSpec (c : Cfg) (h : specAgrees c = true) :
    interp (K := ℝ) env (specProg c) = blockSpec (K := ℝ) c env := by
  rw [← interp_natural, ← blockSpec_natural]
  exact map_eval_eq_of_polysEq env _ _ h

end natural

/-! ### list sums as finite sums -/

theorem sumK_map_range (f : ℕ → ℝ) (n : ℕ) :
    sumK ((List.range n).map f) = ∑ i ∈ Finset.range n, f i := by
  unfold sumK
  induction n with
  | zero => simp [Sca.zero]
  | succ n ih =>
    rw [List.range_succ, List.map_append, List.foldl_append, ih, Finset.sum_range_succ]
    simp

/-! ### the block map over ℝ on structured features -/

/-- features `x b xc k u i`: batch row, channel, block (entry of the `Irreps`), copy, component -/
abbrev Feat := ℕ → ℕ → ℕ → ℕ → ℕ → ℝ
/-- weights `W kk b xc yc u w` of instruction number `kk` (`mul_in × mul_out` matrix per batch row and channel pair) -/
abbrev Weights := ℕ → ℕ → ℕ → ℕ → ℕ → ℕ → ℝ

def insAt (c : Cfg) (kk : ℕ) : ℕ × ℕ := c.ins.getD kk (0, 0)

/-- **the linear part of `o3.Linear`**: identity on the component index `i`, the weight matrix of each instruction on the
    copy index (`u → w`), a coefficient `a kk` per instruction, summed over the instructions into output block `io`
    and over the input channels. -/
noncomputable def linearSpecR (c : Cfg) (a : ℕ → ℝ) (W : Weights) (x : Feat) : Feat := fun b yc io w i =>
  ∑ kk ∈ Finset.range c.ins.length,
    if (insAt c kk).2 = io then
      a kk * ∑ xc ∈ Finset.range (fIn c), ∑ u ∈ Finset.range (mulIn c (insAt c kk)),
        W kk b xc yc u w * x b xc (insAt c kk).1 u i
    else 0

/-- the bias part: `β yc n` is the flat bias vector of output channel `yc` -/
noncomputable def biasR (c : Cfg) (β : ℕ → ℕ → ℝ) : Feat := fun _ yc io w i =>
  if hasBias c io then β yc (biasOffset c io + (w * irDim (c.out.getD io default) + i)) else 0

noncomputable def fullSpecR (c : Cfg) (a : ℕ → ℝ) (W : Weights) (β : ℕ → ℕ → ℝ) (x : Feat) : Feat :=
  fun b yc io w i => linearSpecR c a W x b yc io w i + biasR c β b yc io w i

/-- a family of matrices `D (l, p)`, one per irrep type, acting identically on every copy of every block of a layout -/
noncomputable def act (D : ℕ × Bool → ℕ → ℕ → ℝ) (irr : List Entry) (x : Feat) : Feat := fun b xc k u i =>
  ∑ j ∈ Finset.range (irDim (irr.getD k default)), D (irr.getD k default).2 i j * x b xc k u j

theorem sameIr_eq {a b : Entry} (h : sameIr a b = true) : a.2 = b.2 := by
  simp only [sameIr, Bool.and_eq_true, beq_iff_eq] at h
  exact Prod.ext h.1 h.2

theorem irDim_congr {a b : Entry} (h : a.2 = b.2) : irDim a = irDim b := by
  unfold irDim; rw [h]

theorem insAt_mem (c : Cfg) {kk : ℕ} (h : kk < c.ins.length) : insAt c kk ∈ c.ins := by
  unfold insAt
  rw [List.getD_eq_getElem?_getD, List.getElem?_eq_getElem h]
  exact List.getElem_mem h

theorem one_path_comm (s1 s2 s3 : Finset ℕ) (a : ℝ) (Dm : ℕ → ℝ) (Wm : ℕ → ℕ → ℝ) (X : ℕ → ℕ → ℕ → ℝ) :
    a * ∑ xc ∈ s1, ∑ u ∈ s2, Wm xc u * ∑ j ∈ s3, Dm j * X xc u j
      = ∑ j ∈ s3, Dm j * (a * ∑ xc ∈ s1, ∑ u ∈ s2, Wm xc u * X xc u j) := by
  simp only [Finset.mul_sum]
  conv_rhs => rw [Finset.sum_comm]
  apply Finset.sum_congr rfl; intro xc _
  conv_rhs => rw [Finset.sum_comm]
  apply Finset.sum_congr rfl; intro u _
  apply Finset.sum_congr rfl; intro j _
  ring

/-- **the linear part commutes with every block-scalar family `D`** (in particular with every element of O(3)),
    for all coefficients, all weights, all layouts, all inputs; the only hypothesis is the constructor's guard
    "an instruction connects equal irreps". -/
theorem linearSpecR_equivariant (c : Cfg)
    (hv : ∀ k ∈ c.ins, sameIr (c.inn.getD k.1 default) (c.out.getD k.2 default) = true)
    (D : ℕ × Bool → ℕ → ℕ → ℝ) (a : ℕ → ℝ) (W : Weights) (x : Feat) :
    linearSpecR c a W (act D c.inn x) = act D c.out (linearSpecR c a W x) := by
  funext b yc io w i
  simp only [linearSpecR, act]
  conv_rhs =>
    arg 2; ext j
    rw [Finset.mul_sum]
  conv_rhs => rw [Finset.sum_comm]
  apply Finset.sum_congr rfl; intro kk hkk
  by_cases h : (insAt c kk).2 = io
  · have hs := sameIr_eq (hv _ (insAt_mem c (Finset.mem_range.mp hkk)))
    rw [h] at hs
    simp only [h, if_true]
    rw [hs, irDim_congr hs]
    exact one_path_comm _ _ _ _ _ _ _
  · simp [h]

theorem act_add (D : ℕ × Bool → ℕ → ℕ → ℝ) (irr : List Entry) (x y : Feat) (b xc k u i : ℕ) :
    act D irr (fun b xc k u i => x b xc k u i + y b xc k u i) b xc k u i = act D irr x b xc k u i + act D irr y b xc k u i := by
  simp only [act, mul_add, Finset.sum_add_distrib]

theorem isScalar_irDim {e : Entry} (h : isScalar e = true) : irDim e = 1 ∧ e.2 = (0, false) := by
  simp only [isScalar, Bool.and_eq_true, beq_iff_eq, Bool.not_eq_true'] at h
  refine ⟨by simp [irDim, h.1], Prod.ext h.1 h.2⟩

/-- **the bias is invariant**: biases sit only on even scalars (the constructor's guard), on which `D` is the trivial
    representation (`D (0, even) = (1)`) — on every valid component of every block, biased or not. -/
theorem biasR_invariant (c : Cfg)
    (hb : ∀ io, hasBias c io = true → isScalar (c.out.getD io default) = true)
    (D : ℕ × Bool → ℕ → ℕ → ℝ) (hD : D (0, false) 0 0 = 1) (β : ℕ → ℕ → ℝ) (b yc io w i : ℕ)
    (hi : i < irDim (c.out.getD io default)) :
    act D c.out (biasR c β) b yc io w i = biasR c β b yc io w i := by
  simp only [act, biasR]
  by_cases h : hasBias c io = true
  · obtain ⟨h1, h2⟩ := isScalar_irDim (hb io h)
    rw [h1] at hi ⊢
    rw [h2]
    have hi0 : i = 0 := by omega
    subst hi0
    simp [h, hD]
  · simp [h]

/-- **`o3.Linear` (linear part + bias) is equivariant** under every block-scalar family `D` that is trivial on `0e`:
    all weights, all biases, all coefficients, all layouts, all inputs, every valid output component. -/
theorem fullSpecR_equivariant (c : Cfg)
    (hv : ∀ k ∈ c.ins, sameIr (c.inn.getD k.1 default) (c.out.getD k.2 default) = true)
    (hb : ∀ io, hasBias c io = true → isScalar (c.out.getD io default) = true)
    (D : ℕ × Bool → ℕ → ℕ → ℝ) (hD : D (0, false) 0 0 = 1) (a : ℕ → ℝ) (W : Weights) (β : ℕ → ℕ → ℝ) (x : Feat)
    (b yc io w i : ℕ) (hi : i < irDim (c.out.getD io default)) :
    fullSpecR c a W β (act D c.inn x) b yc io w i = act D c.out (fullSpecR c a W β x) b yc io w i := by
  unfold fullSpecR
  rw [act_add, biasR_invariant c hb D hD β b yc io w i hi, linearSpecR_equivariant c hv]

/-- the guards of `validate` in the form the theorems use -/
theorem validate_ok (c : Cfg) (h : (validate c).isOk = true) :
    (∀ k ∈ c.ins, k.1 < c.inn.length ∧ k.2 < c.out.length) ∧
    (∀ k ∈ c.ins, sameIr (c.inn.getD k.1 default) (c.out.getD k.2 default) = true) ∧
    (∀ io, hasBias c io = true → isScalar (c.out.getD io default) = true) := by
  unfold validate at h
  split at h
  · simp [Except.isOk, Except.toBool] at h
  · rename_i h1
    split at h
    · simp [Except.isOk, Except.toBool] at h
    · rename_i h2
      split at h
      · simp [Except.isOk, Except.toBool] at h
      · rename_i h3
        split at h
        · simp [Except.isOk, Except.toBool] at h
        · rename_i h4
          simp only [List.any_eq_true, not_exists, not_and, Bool.not_eq_true', Bool.and_eq_true] at h1 h2 h4
          refine ⟨fun k hk => by simpa using h1 k hk, fun k hk => by simpa using h2 k hk, ?_⟩
          intro io hio
          have hlen : c.biases.length = c.out.length := by simpa using h3
          unfold hasBias at hio
          have hlt : io < c.biases.length := by
            by_contra hge
            rw [List.getD_eq_getElem?_getD, List.getElem?_eq_none (by omega)] at hio
            exact Bool.false_ne_true hio
          have hlt' : io < c.out.length := hlen ▸ hlt
          rw [List.getD_eq_getElem?_getD, List.getElem?_eq_getElem hlt] at hio
          have hmem : (c.biases[io], c.out[io]) ∈ List.zip c.biases c.out := by
            have : io < (List.zip c.biases c.out).length := by simp [List.length_zip]; omega
            rw [← List.getElem_zip (h := this)]
            exact List.getElem_mem this
          have := h4 _ hmem
          rw [List.getD_eq_getElem?_getD, List.getElem?_eq_getElem hlt']
          have h5 : c.biases[io] = true := by simpa using hio
          simpa [h5] using this

/-! ### flat variables ↔ structured features -/

/-- the features / weights / biases an assignment `env` of the program variables encodes -/
def unflatX (c : Cfg) (env : ℕ → ℝ) : Feat := fun b xc k u i =>
  env (xVar c b xc (offsetOf c.inn k + u * irDim (c.inn.getD k default) + i))
def unflatW (c : Cfg) (env : ℕ → ℝ) : Weights := fun kk b xc yc u w =>
  env (wVar c b xc yc (weightOffset c kk + u * mulOut c (insAt c kk) + w))
def unflatB (c : Cfg) (env : ℕ → ℝ) : ℕ → ℕ → ℝ := fun yc n => env (bVar c yc n)

/-- the documented coefficient of instruction number `kk` as a real number -/
noncomputable def coefR (c : Cfg) (kk : ℕ) : ℝ := (coef c (insAt c kk)).eval

theorem linEntry_eq (c : Cfg) (env : ℕ → ℝ) (b yc io w i : ℕ) :
    linEntry (K := ℝ) c env b yc io w i
      = linearSpecR c (coefR c) (unflatW c env) (unflatX c env) b yc io w i := by
  unfold linEntry linearSpecR
  rw [sumK_map_range]
  apply Finset.sum_congr rfl; intro kk _
  simp only [beq_iff_eq]
  by_cases h : (c.ins.getD kk (0, 0)).2 = io
  · rw [if_pos h, if_pos (show (insAt c kk).2 = io from h), sumK_map_range]
    show SqrtQ.eval _ * _ = _
    unfold coefR insAt
    congr 1
    apply Finset.sum_congr rfl; intro xc _
    rw [sumK_map_range]
    rfl
  · rw [if_neg h, if_neg (show ¬ (insAt c kk).2 = io from h)]; rfl

theorem biasEntry_eq (c : Cfg) (env : ℕ → ℝ) (b yc io q : ℕ) :
    biasEntry (K := ℝ) c env yc io q
      = biasR c (unflatB c env) b yc io (q / irDim (c.out.getD io default)) (q % irDim (c.out.getD io default)) := by
  unfold biasEntry biasR unflatB
  rw [Nat.div_add_mod']
  rfl

/-- decoding of a flat output position `t` of a certified instance: (batch row, channel, block, copy, component) -/
def outPos (c : Cfg) (t : ℕ) : ℕ × ℕ × ℕ × ℕ × ℕ :=
  let dO := totalDim c.out
  let p := locate c.out (t % dO)
  let n := irDim (c.out.getD p.1 default)
  (t / (fOut c * dO), (t / dO) % fOut c, p.1, p.2 / n, p.2 % n)

/-- **the entry-wise specification is the flattened block map** -/
theorem blockSpec_eq (c : Cfg) (env : ℕ → ℝ) :
    blockSpec (K := ℝ) c env = (List.range (c.B * fOut c * totalDim c.out)).map fun t =>
      let q := outPos c t
      fullSpecR c (coefR c) (unflatW c env) (unflatB c env) (unflatX c env) q.1 q.2.1 q.2.2.1 q.2.2.2.1 q.2.2.2.2 := by
  unfold blockSpec
  apply List.map_congr_left; intro t _
  simp only [outPos, fullSpecR]
  rw [linEntry_eq, biasEntry_eq c env (t / (fOut c * totalDim c.out))]

/-! ### the coefficient -/

theorem invSqrt_eval (x : ℕ) : (invSqrt x).eval = if x = 0 then 1 else 1 / Real.sqrt x := by
  unfold invSqrt
  by_cases h : x = 0
  · simp [h]
  · have hx : 0 < x := Nat.pos_of_ne_zero h
    have hx' : (0 : ℝ) < x := by exact_mod_cast hx
    have hs : Real.sqrt x ≠ 0 := (Real.sqrt_pos.mpr hx').ne'
    simp only [beq_iff_eq, h, if_false]
    rw [SqrtQ.eval_scale, SExpr.eval_sqrtConst, Q.eval_mk' 1 x hx, div_mul_eq_mul_div,
      div_eq_div_iff (ne_of_gt hx') hs]
    push_cast
    rw [one_mul, one_mul, Real.mul_self_sqrt hx'.le]

/-- `a_k = 1/√(fan-in)`, and `1` when the fan-in is `0` -/
theorem coefR_eq (c : Cfg) (kk : ℕ) :
    coefR c kk = if fanIn c (insAt c kk) = 0 then 1 else 1 / Real.sqrt (fanIn c (insAt c kk)) := by
  unfold coefR coef
  exact invSqrt_eval _

/-! ### offsets: `locate` inverts `offsetOf + position` -/

theorem foldl_add_init (l : List ℕ) (a : ℕ) : l.foldl (· + ·) a = a + l.foldl (· + ·) 0 := by
  induction l generalizing a with
  | nil => simp
  | cons h t ih => simp only [List.foldl_cons]; rw [ih (a + h), ih (0 + h)]; omega

theorem totalDim_cons (e : Entry) (t : List Entry) : totalDim (e :: t) = dimOf e + totalDim t := by
  unfold totalDim
  simp only [List.map_cons, List.foldl_cons]
  rw [foldl_add_init]; omega

theorem locate_go (r : ℕ) (l : List Entry) (i off k q : ℕ) (hk : k < l.length)
    (hq : q < dimOf (l.getD k default)) (hr : r = off + totalDim (l.take k) + q) :
    locate.go r l i off = (i + k, q) := by
  induction l generalizing i off k with
  | nil => simp at hk
  | cons e t ih =>
    unfold locate.go
    cases k with
    | zero =>
      simp only [List.take_zero, List.getD_cons_zero] at hq hr
      have : totalDim [] = 0 := rfl
      rw [this] at hr
      simp only [show r < off + dimOf e from by omega, if_true]
      ext <;> simp <;> omega
    | succ k =>
      simp only [List.take_succ_cons, List.getD_cons_succ, totalDim_cons] at hq hr
      simp only [show ¬ r < off + dimOf e from by omega, if_false]
      rw [ih (i + 1) (off + dimOf e) k (by simpa using hk) hq (by omega)]
      ext <;> simp <;> omega

/-- position `q` inside block `k` of a layout is found again by `locate` -/
theorem locate_pos (irr : List Entry) (k q : ℕ) (hk : k < irr.length) (hq : q < dimOf (irr.getD k default)) :
    locate irr (offsetOf irr k + q) = (k, q) := by
  unfold locate offsetOf
  rw [locate_go _ irr 0 0 k q hk hq (by omega)]
  simp

theorem offsetOf_add_dimOf_le (irr : List Entry) (k : ℕ) (hk : k < irr.length) :
    offsetOf irr k + dimOf (irr.getD k default) ≤ totalDim irr := by
  unfold offsetOf
  induction irr generalizing k with
  | nil => simp at hk
  | cons e t ih =>
    cases k with
    | zero => simp only [List.take_zero, List.getD_cons_zero, totalDim_cons]; have : totalDim [] = 0 := rfl; omega
    | succ k =>
      simp only [List.take_succ_cons, List.getD_cons_succ, totalDim_cons]
      have := ih k (by simpa using hk)
      omega

/-! ### the group action on the program variables -/

/-- the assignment in which the input features (variables `< nX c`) are transformed by `D` — same batch row, channel,
    block and copy, the component index contracted with `D (l, p)` — and weights / biases are left untouched -/
noncomputable def actEnv (c : Cfg) (D : ℕ × Bool → ℕ → ℕ → ℝ) (env : ℕ → ℝ) : ℕ → ℝ := fun v =>
  if v < nX c then
    let p := locate c.inn (v % totalDim c.inn)
    let e := c.inn.getD p.1 default
    ∑ j ∈ Finset.range (irDim e), D e.2 (p.2 % irDim e) j * env (v - p.2 % irDim e + j)
  else env v

theorem unflatW_actEnv (c : Cfg) (D : ℕ × Bool → ℕ → ℕ → ℝ) (env : ℕ → ℝ) :
    unflatW c (actEnv c D env) = unflatW c env := by
  funext kk b xc yc u w
  simp only [unflatW, actEnv]
  have h : ¬ (wVar c b xc yc (weightOffset c kk + u * mulOut c (insAt c kk) + w) < nX c) := by unfold wVar; omega
  rw [if_neg h]

theorem unflatB_actEnv (c : Cfg) (D : ℕ × Bool → ℕ → ℕ → ℝ) (env : ℕ → ℝ) :
    unflatB c (actEnv c D env) = unflatB c env := by
  funext yc n
  simp only [unflatB, actEnv]
  have h : ¬ (bVar c yc n < nX c) := by unfold bVar; omega
  rw [if_neg h]

theorem irDim_pos (e : Entry) : 0 < irDim e := by unfold irDim; omega

/-- on valid indices, the features encoded by the transformed assignment are the transformed features -/
theorem unflatX_actEnv (c : Cfg) (D : ℕ × Bool → ℕ → ℕ → ℝ) (env : ℕ → ℝ) (b xc k u i : ℕ)
    (hb : b < c.B) (hxc : xc < fIn c) (hk : k < c.inn.length) (hu : u < (c.inn.getD k default).1)
    (hi : i < irDim (c.inn.getD k default)) :
    unflatX c (actEnv c D env) b xc k u i = act D c.inn (unflatX c env) b xc k u i := by
  have hq : u * irDim (c.inn.getD k default) + i < dimOf (c.inn.getD k default) := by
    unfold dimOf
    calc u * irDim (c.inn.getD k default) + i < u * irDim (c.inn.getD k default) + irDim (c.inn.getD k default) := by omega
      _ = (u + 1) * irDim (c.inn.getD k default) := by ring
      _ ≤ (c.inn.getD k default).1 * irDim (c.inn.getD k default) := Nat.mul_le_mul_right _ hu
  have hle := offsetOf_add_dimOf_le c.inn k hk
  have hr : offsetOf c.inn k + (u * irDim (c.inn.getD k default) + i) < totalDim c.inn := by omega
  have hloc := locate_pos c.inn k (u * irDim (c.inn.getD k default) + i) hk hq
  have hmod : (u * irDim (c.inn.getD k default) + i) % irDim (c.inn.getD k default) = i := by
    rw [Nat.mul_comm, Nat.mul_add_mod]; exact Nat.mod_eq_of_lt hi
  have hv : xVar c b xc (offsetOf c.inn k + u * irDim (c.inn.getD k default) + i) < nX c := by
    unfold xVar nX
    calc (b * fIn c + xc) * totalDim c.inn + (offsetOf c.inn k + u * irDim (c.inn.getD k default) + i)
          < (b * fIn c + xc) * totalDim c.inn + totalDim c.inn := by omega
      _ = (b * fIn c + xc + 1) * totalDim c.inn := by ring
      _ ≤ (c.B * fIn c) * totalDim c.inn := by
        apply Nat.mul_le_mul_right
        calc b * fIn c + xc + 1 ≤ b * fIn c + fIn c := by omega
          _ = (b + 1) * fIn c := by ring
          _ ≤ c.B * fIn c := Nat.mul_le_mul_right _ hb
  have hvm : xVar c b xc (offsetOf c.inn k + u * irDim (c.inn.getD k default) + i) % totalDim c.inn
      = offsetOf c.inn k + (u * irDim (c.inn.getD k default) + i) := by
    unfold xVar
    rw [Nat.mul_comm, Nat.mul_add_mod, Nat.add_assoc]
    exact Nat.mod_eq_of_lt hr
  simp only [unflatX, act]
  unfold actEnv
  rw [if_pos hv]
  simp only [hvm, hloc, hmod]
  apply Finset.sum_congr rfl; intro j _
  congr 2
  unfold xVar
  omega

/-- `linearSpecR` reads only the valid entries of the features -/
theorem linearSpecR_congr (c : Cfg) (a : ℕ → ℝ) (W : Weights) (x x' : Feat) (b yc io w i : ℕ)
    (h : ∀ kk, kk < c.ins.length → (insAt c kk).2 = io → ∀ xc, xc < fIn c → ∀ u, u < mulIn c (insAt c kk) →
      x b xc (insAt c kk).1 u i = x' b xc (insAt c kk).1 u i) :
    linearSpecR c a W x b yc io w i = linearSpecR c a W x' b yc io w i := by
  unfold linearSpecR
  apply Finset.sum_congr rfl; intro kk hkk
  by_cases hio : (insAt c kk).2 = io
  · rw [if_pos hio, if_pos hio]
    congr 1
    apply Finset.sum_congr rfl; intro xc hxc
    apply Finset.sum_congr rfl; intro u hu
    rw [h kk (Finset.mem_range.mp hkk) hio xc (Finset.mem_range.mp hxc) u (Finset.mem_range.mp hu)]
  · rw [if_neg hio, if_neg hio]

theorem getD_map_range (n t : ℕ) (f : ℕ → ℝ) (ht : t < n) : ((List.range n).map f).getD t 0 = f t := by
  rw [List.getD_eq_getElem?_getD, List.getElem?_map, List.getElem?_range ht]
  rfl

/-- **flat form of the equivariance of the specification**: transforming the input variables of a certified instance by
    `D` transforms the value at every output position `t = (b, yc, io, w, i)` into `Σ_j D(l_io, p_io)[i, j] · out(b, yc, io, w, j)`. -/
theorem blockSpec_equivariant (c : Cfg) (hok : (validate c).isOk = true)
    (D : ℕ × Bool → ℕ → ℕ → ℝ) (hD : D (0, false) 0 0 = 1) (env : ℕ → ℝ) (t : ℕ)
    (ht : t < c.B * fOut c * totalDim c.out) :
    (blockSpec (K := ℝ) c (actEnv c D env)).getD t 0 =
      act D c.out (fullSpecR c (coefR c) (unflatW c env) (unflatB c env) (unflatX c env))
        (outPos c t).1 (outPos c t).2.1 (outPos c t).2.2.1 (outPos c t).2.2.2.1 (outPos c t).2.2.2.2 := by
  obtain ⟨hidx, hsame, hbias⟩ := validate_ok c hok
  rw [blockSpec_eq, getD_map_range _ _ _ ht]
  simp only [unflatW_actEnv, unflatB_actEnv]
  set q := outPos c t with hq
  have hi : q.2.2.2.2 < irDim (c.out.getD q.2.2.1 default) := by
    simp only [hq, outPos]
    exact Nat.mod_lt _ (irDim_pos _)
  have hb : q.1 < c.B := by
    simp only [hq, outPos]
    apply Nat.div_lt_of_lt_mul
    rw [Nat.mul_comm, ← Nat.mul_assoc]; exact ht
  rw [← fullSpecR_equivariant c hsame hbias D hD _ _ _ _ _ _ _ _ _ hi]
  unfold fullSpecR
  congr 1
  apply linearSpecR_congr
  intro kk hkk hio xc hxc u hu
  have hmem := insAt_mem c hkk
  have hs := sameIr_eq (hsame _ hmem)
  apply unflatX_actEnv c D env _ _ _ _ _ hb hxc (hidx _ hmem).1 hu
  rw [irDim_congr hs, hio]
  exact hi

/-! ### decoding of output positions -/

theorem locate_go_spec (r : ℕ) (l : List Entry) (i off : ℕ) (h1 : off ≤ r) (h2 : r < off + totalDim l) :
    i ≤ (locate.go r l i off).1 ∧ (locate.go r l i off).1 - i < l.length ∧
    (locate.go r l i off).2 < dimOf (l.getD ((locate.go r l i off).1 - i) default) ∧
    r = off + totalDim (l.take ((locate.go r l i off).1 - i)) + (locate.go r l i off).2 := by
  induction l generalizing i off with
  | nil => have : totalDim [] = 0 := rfl; omega
  | cons e t ih =>
    unfold locate.go
    rw [totalDim_cons] at h2
    by_cases h : r < off + dimOf e
    · simp only [h, if_true, Nat.sub_self, List.getD_cons_zero, List.take_zero, List.length_cons]
      have : totalDim [] = 0 := rfl
      refine ⟨le_refl _, by omega, by omega, by omega⟩
    · simp only [h, if_false]
      obtain ⟨a1, a2, a3, a4⟩ := ih (i + 1) (off + dimOf e) (by omega) (by omega)
      have hsub : (locate.go r t (i + 1) (off + dimOf e)).1 - i = ((locate.go r t (i + 1) (off + dimOf e)).1 - (i + 1)) + 1 := by omega
      refine ⟨by omega, ?_, ?_, ?_⟩
      · rw [hsub, List.length_cons]; omega
      · rw [hsub, List.getD_cons_succ]; exact a3
      · rw [hsub, List.take_succ_cons, totalDim_cons]; omega

/-- a flat position inside a layout decodes to a valid (block, position-in-block) pair that encodes it -/
theorem locate_spec (irr : List Entry) (r : ℕ) (hr : r < totalDim irr) :
    (locate irr r).1 < irr.length ∧ (locate irr r).2 < dimOf (irr.getD (locate irr r).1 default) ∧
    r = offsetOf irr (locate irr r).1 + (locate irr r).2 := by
  have := locate_go_spec r irr 0 0 (Nat.zero_le _) (by omega)
  unfold locate offsetOf
  simp only [Nat.sub_zero, Nat.zero_add] at this
  exact ⟨this.2.1, this.2.2.1, this.2.2.2⟩

/-- flat index of output entry `(b, yc, io, w, i)` -/
def outIdx (c : Cfg) (b yc io w i : ℕ) : ℕ :=
  (b * fOut c + yc) * totalDim c.out + (offsetOf c.out io + (w * irDim (c.out.getD io default) + i))

/-- `outPos` decodes `outIdx` on valid entries -/
theorem outPos_outIdx (c : Cfg) (b yc io w i : ℕ) (hyc : yc < fOut c) (hio : io < c.out.length)
    (hw : w < (c.out.getD io default).1) (hi : i < irDim (c.out.getD io default)) :
    outPos c (outIdx c b yc io w i) = (b, yc, io, w, i) := by
  have hq : w * irDim (c.out.getD io default) + i < dimOf (c.out.getD io default) := by
    unfold dimOf
    calc w * irDim (c.out.getD io default) + i < w * irDim (c.out.getD io default) + irDim (c.out.getD io default) := by omega
      _ = (w + 1) * irDim (c.out.getD io default) := by ring
      _ ≤ (c.out.getD io default).1 * irDim (c.out.getD io default) := Nat.mul_le_mul_right _ hw
  have hle := offsetOf_add_dimOf_le c.out io hio
  have hr : offsetOf c.out io + (w * irDim (c.out.getD io default) + i) < totalDim c.out := by omega
  have hpos : 0 < totalDim c.out := by omega
  have hmod : outIdx c b yc io w i % totalDim c.out = offsetOf c.out io + (w * irDim (c.out.getD io default) + i) := by
    unfold outIdx
    rw [Nat.mul_comm, Nat.mul_add_mod]
    exact Nat.mod_eq_of_lt hr
  have hdiv : outIdx c b yc io w i / totalDim c.out = b * fOut c + yc := by
    unfold outIdx
    rw [Nat.mul_comm, Nat.mul_add_div hpos, Nat.div_eq_of_lt hr, Nat.add_zero]
  have hdiv2 : outIdx c b yc io w i / (fOut c * totalDim c.out) = b := by
    rw [Nat.mul_comm, ← Nat.div_div_eq_div_mul, hdiv, Nat.mul_comm, Nat.mul_add_div (by omega), Nat.div_eq_of_lt hyc,
      Nat.add_zero]
  have hloc := locate_pos c.out io _ hio hq
  unfold outPos
  simp only [hmod, hdiv, hdiv2, hloc]
  have e1 : (b * fOut c + yc) % fOut c = yc := by rw [Nat.mul_comm, Nat.mul_add_mod]; exact Nat.mod_eq_of_lt hyc
  have e2 : (w * irDim (c.out.getD io default) + i) / irDim (c.out.getD io default) = w := by
    rw [Nat.mul_comm, Nat.mul_add_div (irDim_pos _), Nat.div_eq_of_lt hi, Nat.add_zero]
  have e3 : (w * irDim (c.out.getD io default) + i) % irDim (c.out.getD io default) = i := by
    rw [Nat.mul_comm, Nat.mul_add_mod]; exact Nat.mod_eq_of_lt hi
  rw [e1, e2, e3]

/-- every output position of a certified instance is the index of its decoding, and the decoding is valid -/
theorem outIdx_outPos (c : Cfg) (t : ℕ) (ht : t < c.B * fOut c * totalDim c.out) :
    let q := outPos c t
    outIdx c q.1 q.2.1 q.2.2.1 q.2.2.2.1 q.2.2.2.2 = t ∧ q.1 < c.B ∧ q.2.1 < fOut c ∧ q.2.2.1 < c.out.length ∧
      q.2.2.2.1 < (c.out.getD q.2.2.1 default).1 ∧ q.2.2.2.2 < irDim (c.out.getD q.2.2.1 default) := by
  have hpos : 0 < totalDim c.out := by
    rcases Nat.eq_zero_or_pos (totalDim c.out) with h | h
    · rw [h] at ht; omega
    · exact h
  have hfo : 0 < fOut c := by
    rcases Nat.eq_zero_or_pos (fOut c) with h | h
    · rw [h] at ht; simp at ht
    · exact h
  obtain ⟨l1, l2, l3⟩ := locate_spec c.out (t % totalDim c.out) (Nat.mod_lt _ hpos)
  simp only [outPos]
  set p := locate c.out (t % totalDim c.out) with hp
  have hn := irDim_pos (c.out.getD p.1 default)
  refine ⟨?_, ?_, Nat.mod_lt _ hfo, l1, ?_, Nat.mod_lt _ hn⟩
  · unfold outIdx
    rw [Nat.div_add_mod', ← l3]
    have : t / (fOut c * totalDim c.out) * fOut c + t / totalDim c.out % fOut c = t / totalDim c.out := by
      rw [Nat.mul_comm (fOut c), ← Nat.div_div_eq_div_mul]
      exact Nat.div_add_mod' _ _
    rw [this]
    exact Nat.div_add_mod' _ _
  · apply Nat.div_lt_of_lt_mul
    rw [Nat.mul_comm, ← Nat.mul_assoc]; exact ht
  · apply Nat.div_lt_of_lt_mul
    unfold dimOf at l2
    rw [Nat.mul_comm]; exact l2

theorem outIdx_lt (c : Cfg) (b yc io w i : ℕ) (hb : b < c.B) (hyc : yc < fOut c) (hio : io < c.out.length)
    (hw : w < (c.out.getD io default).1) (hi : i < irDim (c.out.getD io default)) :
    outIdx c b yc io w i < c.B * fOut c * totalDim c.out := by
  have hq : w * irDim (c.out.getD io default) + i < dimOf (c.out.getD io default) := by
    unfold dimOf
    calc w * irDim (c.out.getD io default) + i < w * irDim (c.out.getD io default) + irDim (c.out.getD io default) := by omega
      _ = (w + 1) * irDim (c.out.getD io default) := by ring
      _ ≤ (c.out.getD io default).1 * irDim (c.out.getD io default) := Nat.mul_le_mul_right _ hw
  have hle := offsetOf_add_dimOf_le c.out io hio
  unfold outIdx
  calc (b * fOut c + yc) * totalDim c.out + (offsetOf c.out io + (w * irDim (c.out.getD io default) + i))
        < (b * fOut c + yc) * totalDim c.out + totalDim c.out := by omega
    _ = (b * fOut c + yc + 1) * totalDim c.out := by ring
    _ ≤ (c.B * fOut c) * totalDim c.out := by
      apply Nat.mul_le_mul_right
      calc b * fOut c + yc + 1 ≤ b * fOut c + fOut c := by omega
        _ = (b + 1) * fOut c := by ring
        _ ≤ c.B * fOut c := Nat.mul_le_mul_right _ hb

end E3nnVerif.Model.Lin
