import Mathlib.Algebra.BigOperators.Group.List.Basic
import E3nnVerif.Sound.Tensor
import E3nnVerif.Theory.PolyWF
import E3nnVerif.Theory.TPPlaced
/-
Soundness of `introspectionCheck` (C19 b, c, d): what the kernel-decided Boolean means over ℝ.
-/
namespace E3nnVerif.Model.TP
open E3nnVerif.Exact E3nnVerif.IR E3nnVerif.Exact.AList

/-- the model's list of weight views `(instruction, first flat index, length)`: one per weighted instruction,
    in instruction order (an empty view is reported at index 0) -/
def modelViews (c : Cfg) : List (Nat × Nat × Nat) :=
  (List.range c.ins.length).filterMap fun k =>
    let p := c.ins.getD k default
    if p.hasW then some (k, (if pathSize c p == 0 then 0 else weightOffset c k), pathSize c p) else none

/-- the content of `introspectionCheck`, clause by clause -/
structure Introspection (c : Cfg) (polys : List Poly) (mask : List Bool) (numel : Nat)
    (views : List (Nat × Nat × Nat)) (dims : Nat × Nat × Nat) : Prop where
  dims_eq : dims = (totalDim c.in1, totalDim c.in2, totalDim c.out)
  polys_len : polys.length = c.B * totalDim c.out
  mask_len : mask.length = totalDim c.out
  numel_eq : numel = weightNumel c
  mask_false : ∀ b k, b < c.B → k < totalDim c.out → mask.getD k false = false →
    (polys.getD (b * totalDim c.out + k) []).isZero = true
  mask_true : ∀ b k, b < c.B → k < totalDim c.out → mask.getD k false = true →
    hasNonzeroTerm (polys.getD (b * totalDim c.out + k) []) = true
  placed : ∀ b k, b < c.B → k < totalDim c.out → ∀ tm ∈ polys.getD (b * totalDim c.out + k) [],
    tm.2.isZero = true ∨ monoPlaced c b k tm.1 = true
  views_eq : views = modelViews c

theorem introspection_of_check {c : Cfg} {polys : List Poly} {mask : List Bool} {numel : Nat}
    {views : List (Nat × Nat × Nat)} {dims : Nat × Nat × Nat}
    (h : introspectionCheck c polys mask numel views dims = true) :
    Introspection c polys mask numel views dims := by
  simp only [introspectionCheck, Bool.and_eq_true] at h
  obtain ⟨⟨⟨⟨⟨⟨h1, h2⟩, h3⟩, h4⟩, h5⟩, h6⟩, h7⟩ := h
  have h5 := fun t ht => List.all_eq_true.mp h5 t (List.mem_range.mpr ht)
  have h6 := fun t ht => List.all_eq_true.mp (List.all_eq_true.mp h6 t (List.mem_range.mpr ht))
  refine ⟨eq_of_beq h1, eq_of_beq h2, eq_of_beq h3, eq_of_beq h4, ?_, ?_, ?_, eq_of_beq h7⟩
  · intro b k hb hk hm
    have := h5 (b * totalDim c.out + k) (idx_lt hk hb)
    rw [idx_mod hk, hm] at this
    simpa using this
  · intro b k hb hk hm
    have := h5 (b * totalDim c.out + k) (idx_lt hk hb)
    rw [idx_mod hk, hm] at this
    simpa using this
  · intro b k hb hk tm htm
    have := h6 (b * totalDim c.out + k) (idx_lt hk hb) tm htm
    rw [idx_mod hk, idx_div hk] at this
    simpa using this

/-! ### evaluation of placed monomials -/

theorem Mono.eval_perm (env : ℕ → ℝ) {a b : Mono} (h : a.Perm b) : Mono.eval env a = Mono.eval env b := by
  unfold Mono.eval; exact (h.map env).prod_eq

theorem Mono.eval_two (env : ℕ → ℝ) (x y : ℕ) : Mono.eval env [x, y] = env x * env y := by simp [Mono.eval]
theorem Mono.eval_three (env : ℕ → ℝ) (x y w : ℕ) : Mono.eval env [x, y, w] = env x * env y * env w := by
  simp [Mono.eval]; ring

/-- a well-placed, sorted monomial is literally `[x, y]` or `[x, y, w]` with `x < T1 ≤ y < T2 ≤ w` -/
theorem placed_sorted_shape {c : Cfg} {b k : Nat} {m : Mono} (h : monoPlaced c b k m = true) (hs : Mono.Sorted m) :
    ∃ x y, x < T1 c ∧ T1 c ≤ y ∧ y < T2 c ∧ (m = [x, y] ∨ ∃ w, T2 c ≤ w ∧ m = [x, y, w]) := by
  obtain ⟨x, y, i, j, hx, hy, hrest⟩ := monoPlaced_spec h
  have hx' := classify_x1 hx
  have hy' := classify_x2 hy
  refine ⟨x, y, hx'.1, hy'.1, hy'.2.1, ?_⟩
  have anti : ∀ (a b : ℕ), a ∈ m → b ∈ [x, y] → a ≤ b → b ≤ a → a = b := fun a b _ _ h1 h2 => Nat.le_antisymm h1 h2
  rcases hrest with ⟨hp, _⟩ | ⟨w, n, kk, hw, hp, _⟩
  · left
    refine List.Perm.eq_of_pairwise (le := (· ≤ ·)) (fun a b _ _ h1 h2 => Nat.le_antisymm h1 h2) hs ?_ hp
    simp only [List.pairwise_cons, List.mem_cons, List.not_mem_nil, or_false, forall_eq, false_imp_iff,
      implies_true, List.Pairwise.nil, and_true]
    omega
  · right
    have hw' := classify_w hw
    refine ⟨w, hw'.1, ?_⟩
    refine List.Perm.eq_of_pairwise (le := (· ≤ ·)) (fun a b _ _ h1 h2 => Nat.le_antisymm h1 h2) hs ?_ hp
    have h12 : T1 c ≤ T2 c := by unfold T1 T2; omega
    simp only [List.pairwise_cons, List.mem_cons, List.not_mem_nil, or_false, forall_eq_or_imp, forall_eq,
      false_imp_iff, implies_true, List.Pairwise.nil, and_true]
    omega

/-- indicator environment of a set of variables -/
noncomputable def indEnv (S : List ℕ) : ℕ → ℝ := fun v => if v ∈ S then 1 else 0

theorem indEnv_mem {S : List ℕ} {v : ℕ} (h : v ∈ S) : indEnv S v = 1 := by simp [indEnv, h]
theorem indEnv_not_mem {S : List ℕ} {v : ℕ} (h : v ∉ S) : indEnv S v = 0 := by simp [indEnv, h]

section Single
variable {K C : Type}

theorem sumBy_eq_zero (f : K → C → ℝ) (l : AList K C) (h : ∀ t ∈ l, f t.1 t.2 = 0) : sumBy f l = 0 := by
  induction l with
  | nil => simp
  | cons hd tl ih =>
    rw [sumBy_cons, h hd (List.mem_cons_self ..), ih (fun t ht => h t (List.mem_cons_of_mem _ ht))]; ring

theorem sumBy_congr_mem (f g : K → C → ℝ) (l : AList K C) (h : ∀ t ∈ l, f t.1 t.2 = g t.1 t.2) :
    sumBy f l = sumBy g l := by
  induction l with
  | nil => simp
  | cons hd tl ih =>
    rw [sumBy_cons, sumBy_cons, h hd (List.mem_cons_self ..), ih (fun t ht => h t (List.mem_cons_of_mem _ ht))]

theorem sumBy_sub (f g : K → C → ℝ) (l : AList K C) :
    sumBy (fun k c => f k c - g k c) l = sumBy f l - sumBy g l := by
  induction l with
  | nil => simp
  | cons hd tl ih => rw [sumBy_cons, sumBy_cons, sumBy_cons, ih]; ring

/-- if the keys are pairwise distinct and every term with a key other than `t0`'s vanishes, only `t0` survives -/
theorem sumBy_eq_single (f : K → C → ℝ) (l : AList K C) (hn : (l.map Prod.fst).Nodup) (t0 : K × C) (h0 : t0 ∈ l)
    (h : ∀ t ∈ l, t.1 ≠ t0.1 → f t.1 t.2 = 0) : sumBy f l = f t0.1 t0.2 := by
  induction l with
  | nil => simp at h0
  | cons hd tl ih =>
    simp only [List.map_cons, List.nodup_cons] at hn
    rw [sumBy_cons]
    rcases List.mem_cons.mp h0 with rfl | h0'
    · rw [sumBy_eq_zero f tl]
      · ring
      · intro t ht
        apply h t (List.mem_cons_of_mem _ ht)
        intro he
        exact hn.1 (he ▸ List.mem_map_of_mem (f := Prod.fst) ht)
    · have hne : hd.1 ≠ t0.1 := by
        intro he
        exact hn.1 (he ▸ List.mem_map_of_mem (f := Prod.fst) h0')
      rw [h hd (List.mem_cons_self ..) hne, ih hn.2 h0' (fun t ht => h t (List.mem_cons_of_mem _ ht))]; ring

end Single

theorem Q.eval_ne_zero {q : Q} (h : q.isZero = false) : q.eval ≠ 0 := by
  have hn : q.n ≠ 0 := by simpa [Q.isZero] using h
  rw [Q.eval_def]
  have hd := Q.den_cast_ne q
  have : (q.n : ℝ) ≠ 0 := by exact_mod_cast hn
  exact div_ne_zero this hd

theorem SqrtQ.eval_single_ne_zero {r : ℕ} {q : Q} (hq : q.isZero = false) (hr : r ≠ 0) :
    SqrtQ.eval [(r, q)] ≠ 0 := by
  have : SqrtQ.eval [(r, q)] = q.eval * Real.sqrt r := by simp [SqrtQ.eval, SqrtQ.termVal]
  rw [this]
  have h1 := Q.eval_ne_zero hq
  have h2 : Real.sqrt (r : ℝ) ≠ 0 := by
    have : (0 : ℝ) < r := by exact_mod_cast Nat.pos_of_ne_zero hr
    exact (Real.sqrt_pos.mpr this).ne'
  exact mul_ne_zero h1 h2

/-- the witness of `hasNonzeroTerm` -/
theorem hasNonzeroTerm_spec {p : Poly} (h : hasNonzeroTerm p = true) :
    ∃ t ∈ p, SqrtQ.eval t.2 ≠ 0 ∧ SqrtQ.isZero t.2 = false := by
  unfold hasNonzeroTerm at h
  obtain ⟨t, ht, h⟩ := List.any_eq_true.mp h
  refine ⟨t, ht, ?_⟩
  obtain ⟨m, cf⟩ := t
  simp only at h ⊢
  split at h
  · rename_i r q
    simp only [Bool.and_eq_true, Bool.not_eq_true', bne_iff_ne, ne_eq] at h
    exact ⟨SqrtQ.eval_single_ne_zero h.1 h.2, by simp [SqrtQ.isZero, AList.allZero, h.1]⟩
  · exact absurd h (by decide)

theorem hasNonzeroTerm_not_isZero {p : Poly} (h : hasNonzeroTerm p = true) : p.isZero = false := by
  obtain ⟨t, ht, _, hz⟩ := hasNonzeroTerm_spec h
  unfold Poly.isZero AList.allZero
  rw [← Bool.not_eq_true, List.all_eq_true]
  intro hall
  rw [hall t ht] at hz; exact absurd hz (by decide)

/-- sorted monomials, pairwise distinct keys (decidable; holds for every output of the IR interpreter,
    `distinctMonos_of_wf`) -/
def DistinctMonos (p : Poly) : Prop := (∀ t ∈ p, Mono.Sorted t.1) ∧ (p.map Prod.fst).Nodup

instance (p : Poly) : Decidable (DistinctMonos p) := by unfold DistinctMonos; infer_instance

theorem distinctMonos_of_wf {p : Poly} (h : Poly.WF p) : DistinctMonos p := ⟨h.monos, h.nodup⟩

/-- **a placed polynomial with a non-zero term is not the zero function** -/
theorem exists_env_ne_zero {c : Cfg} {b k : Nat} {p : Poly} (hd : DistinctMonos p)
    (hpl : ∀ tm ∈ p, tm.2.isZero = true ∨ monoPlaced c b k tm.1 = true) (hnz : hasNonzeroTerm p = true) :
    ∃ env : ℕ → ℝ, Poly.eval env p ≠ 0 := by
  obtain ⟨t0, ht0, hcoef, hz0⟩ := hasNonzeroTerm_spec hnz
  have hp0 : monoPlaced c b k t0.1 = true := by
    rcases hpl t0 ht0 with h | h
    · rw [h] at hz0; exact absurd hz0 (by decide)
    · exact h
  obtain ⟨x0, y0, hx0, hy0, hy0', hm0⟩ := placed_sorted_shape hp0 (hd.1 t0 ht0)
  have h12 : T1 c ≤ T2 c := by unfold T1 T2; omega
  rcases hm0 with hm0 | ⟨w0, hw0, hm0⟩
  · -- m0 = x0·y0 : evaluate at the indicator of {x0, y0}
    refine ⟨indEnv [x0, y0], ?_⟩
    have hsingle : Poly.eval (indEnv [x0, y0]) p = Poly.termVal (indEnv [x0, y0]) t0.1 t0.2 := by
      unfold Poly.eval
      apply sumBy_eq_single _ _ hd.2 t0 ht0
      intro t ht hne
      rcases hpl t ht with hz | hpt
      · exact Poly.termVal_isZero _ _ _ hz
      · obtain ⟨x, y, hx, hy, hy', hm⟩ := placed_sorted_shape hpt (hd.1 t ht)
        unfold Poly.termVal
        rcases hm with hm | ⟨w, hw, hm⟩
        · rw [hm, Mono.eval_two]
          rw [hm, hm0] at hne
          by_cases hxx : x = x0
          · have hyy : y ≠ y0 := by intro hyy; exact hne (by rw [hxx, hyy])
            rw [indEnv_not_mem (v := y) (by simp only [List.mem_cons, List.not_mem_nil, or_false]; omega)]; ring
          · rw [indEnv_not_mem (v := x) (by simp only [List.mem_cons, List.not_mem_nil, or_false]; omega)]; ring
        · rw [hm, Mono.eval_three]
          rw [indEnv_not_mem (v := w) (by simp only [List.mem_cons, List.not_mem_nil, or_false]; omega)]; ring
    rw [hsingle]
    unfold Poly.termVal
    rw [hm0, Mono.eval_two, indEnv_mem (by simp), indEnv_mem (by simp)]
    simpa using hcoef
  · -- m0 = x0·y0·w0 : the difference of the values at the indicators of {x0,y0,w0} and {x0,y0} is the coefficient
    have hdiff : Poly.eval (indEnv [x0, y0, w0]) p - Poly.eval (indEnv [x0, y0]) p = SqrtQ.eval t0.2 := by
      unfold Poly.eval
      rw [← sumBy_sub]
      rw [sumBy_eq_single _ _ hd.2 t0 ht0]
      · unfold Poly.termVal
        rw [hm0, Mono.eval_three, Mono.eval_three, indEnv_mem (by simp), indEnv_mem (by simp), indEnv_mem (by simp),
          indEnv_not_mem (S := [x0, y0]) (v := w0) (by simp only [List.mem_cons, List.not_mem_nil, or_false]; omega)]
        ring
      · intro t ht hne
        rcases hpl t ht with hz | hpt
        · rw [Poly.termVal_isZero _ _ _ hz, Poly.termVal_isZero _ _ _ hz]; ring
        · obtain ⟨x, y, hx, hy, hy', hm⟩ := placed_sorted_shape hpt (hd.1 t ht)
          unfold Poly.termVal
          rcases hm with hm | ⟨w, hw, hm⟩
          · rw [hm, Mono.eval_two, Mono.eval_two]
            have ex : indEnv [x0, y0, w0] x = indEnv [x0, y0] x := by
              unfold indEnv
              have : (x ∈ [x0, y0, w0]) ↔ (x ∈ [x0, y0]) := by
                simp only [List.mem_cons, List.not_mem_nil, or_false]; omega
              simp only [this]
            have ey : indEnv [x0, y0, w0] y = indEnv [x0, y0] y := by
              unfold indEnv
              have : (y ∈ [x0, y0, w0]) ↔ (y ∈ [x0, y0]) := by
                simp only [List.mem_cons, List.not_mem_nil, or_false]; omega
              simp only [this]
            rw [ex, ey]; ring
          · rw [hm, Mono.eval_three, Mono.eval_three]
            rw [indEnv_not_mem (S := [x0, y0]) (v := w)
              (by simp only [List.mem_cons, List.not_mem_nil, or_false]; omega)]
            rw [hm, hm0] at hne
            by_cases hxx : x = x0
            · by_cases hyy : y = y0
              · have hww : w ≠ w0 := by intro hww; exact hne (by rw [hxx, hyy, hww])
                rw [indEnv_not_mem (v := w) (by simp only [List.mem_cons, List.not_mem_nil, or_false]; omega)]; ring
              · rw [indEnv_not_mem (S := [x0, y0, w0]) (v := y)
                  (by simp only [List.mem_cons, List.not_mem_nil, or_false]; omega)]; ring
            · rw [indEnv_not_mem (S := [x0, y0, w0]) (v := x)
                (by simp only [List.mem_cons, List.not_mem_nil, or_false]; omega)]; ring
    by_cases h1 : Poly.eval (indEnv [x0, y0, w0]) p = 0
    · refine ⟨indEnv [x0, y0], ?_⟩
      intro h0
      rw [h1, h0] at hdiff
      exact hcoef (by linarith)
    · exact ⟨_, h1⟩

/-! ### weights of slice `kk` only reach the output block of instruction `kk` -/

/-- the two environments agree on every variable that is not a weight of the slice of instruction `kk` -/
def AgreeOutsideSlice (c : Cfg) (kk : Nat) (env env' : ℕ → ℝ) : Prop :=
  ∀ v, (∀ bw n, classify c v = .w bw n → ¬ InSlice c kk n) → env v = env' v

theorem eval_eq_of_agree {c : Cfg} {b k : Nat} {p : Poly}
    (hpl : ∀ tm ∈ p, tm.2.isZero = true ∨ monoPlaced c b k tm.1 = true)
    {kk : Nat} (hwkk : (insAt c kk).hasW = true) (hk : (locate c.out k).1 ≠ (insAt c kk).io)
    {env env' : ℕ → ℝ} (hag : AgreeOutsideSlice c kk env env') :
    Poly.eval env p = Poly.eval env' p := by
  unfold Poly.eval
  apply sumBy_congr_mem
  intro t ht
  rcases hpl t ht with hz | hpt
  · rw [Poly.termVal_isZero _ _ _ hz, Poly.termVal_isZero _ _ _ hz]
  · obtain ⟨x, y, i, j, hx, hy, hrest⟩ := monoPlaced_spec hpt
    have ex : env x = env' x := hag x (by intro bw n h; rw [hx] at h; exact absurd h (by simp))
    have ey : env y = env' y := hag y (by intro bw n h; rw [hy] at h; exact absurd h (by simp))
    unfold Poly.termVal
    rcases hrest with ⟨hp, _⟩ | ⟨w, n, k2, hw, hp, hpath, _, _, hio⟩
    · rw [Mono.eval_perm env hp, Mono.eval_perm env' hp, Mono.eval_two, Mono.eval_two, ex, ey]
    · have ew : env w = env' w := by
        apply hag w
        intro bw n' h hin
        rw [hw] at h
        injection h with _ hn
        subst hn
        obtain ⟨hw2, hs2⟩ := (pathOfWeight_eq_some_iff c n k2).mp hpath
        have := slices_disjoint c hw2 hwkk hs2 hin
        subst this
        exact hk hio.symm
      rw [Mono.eval_perm env hp, Mono.eval_perm env' hp, Mono.eval_three, Mono.eval_three, ex, ey, ew]

/-- **every monomial that contains a weight variable `w[bw,n]` belongs to the path that owns `n`** -/
theorem weight_monomial_path {c : Cfg} {b k : Nat} {m : Mono} (hpt : monoPlaced c b k m = true)
    {w bw n : Nat} (hmem : w ∈ m) (hw : classify c w = .w bw n) :
    ∃ kk x y i j, pathOfWeight c n = some kk ∧ m.Perm [x, y, w] ∧
      classify c x = .x1 b i ∧ classify c y = .x2 b j ∧ bw = (if c.shared then 0 else b) ∧
      (insAt c kk).i1 = (locate c.in1 i).1 ∧ (insAt c kk).i2 = (locate c.in2 j).1 ∧
      (insAt c kk).io = (locate c.out k).1 := by
  obtain ⟨x, y, i, j, hx, hy, hrest⟩ := monoPlaced_spec hpt
  have hwx : w ≠ x := by intro h; rw [h, hx] at hw; exact absurd hw (by simp)
  have hwy : w ≠ y := by intro h; rw [h, hy] at hw; exact absurd hw (by simp)
  rcases hrest with ⟨hp, _⟩ | ⟨w', n', kk, hw', hp, hpath, h1, h2, h3⟩
  · have := hp.subset hmem
    simp only [List.mem_cons, List.not_mem_nil, or_false] at this
    rcases this with h | h
    · exact absurd h hwx
    · exact absurd h hwy
  · have := hp.subset hmem
    simp only [List.mem_cons, List.not_mem_nil, or_false] at this
    rcases this with h | h | h
    · exact absurd h hwx
    · exact absurd h hwy
    · subst h
      rw [hw] at hw'
      injection hw' with hb hn
      subst hn
      exact ⟨kk, x, y, i, j, hpath, hp, hx, hy, hb, h1, h2, h3⟩

/-! ### from polynomials to the real semantics of the program -/

theorem interp_getD (env : ℕ → ℝ) (prog : List Node) (t : Nat) :
    (interp (K := ℝ) env prog).getD t 0 = Poly.eval env ((interpPoly prog).getD t []) := by
  rw [← interp_natural]
  rw [List.getD_eq_getElem?_getD, List.getD_eq_getElem?_getD, List.getElem?_map]
  cases (interpPoly prog)[t]? with
  | none => simp
  | some p => simp

end E3nnVerif.Model.TP
