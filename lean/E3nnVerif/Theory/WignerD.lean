import Mathlib.Analysis.SpecialFunctions.Trigonometric.Deriv
import Mathlib.Data.Fin.Rev
import Mathlib.Topology.Instances.Matrix
import Mathlib.Topology.Order.IntermediateValue
import E3nnVerif.Theory.OneParam
/-
Closed forms and periodicity of the one-parameter groups that make up `wigner_D`.

* `yGen l` is the matrix with the entry `l − i` at `(i, 2l − i)` — the form of the code's `X[1]` ("y")
  generator: it pairs the components `(l−m, l+m)` into the 2×2 blocks `m·J`.
  `expM_smul_yGen`:  `exp(θ • yGen l) = blockRotY l θ`,  the explicit matrix with `cos(mθ)` on the diagonal and
  `± sin(mθ)` on the anti-diagonal (this is the structure `ToS2Grid`'s FFT relies on).
* `adjoint_rotation`: from the two commutation relations `[Z,W] = V`, `[Z,V] = −W` alone,
  `exp(tZ) W = (cos t · W + sin t · V) exp(tZ)` for all `t` (an ODE-uniqueness argument).
* `det_expM_smul_of_skew`: `det exp(tA) = 1` for skew `A` (±1 by orthogonality, continuity in `t`, value 1 at 0 —
  Mathlib has no `det (exp A) = exp (tr A)`).
* `expM_conj_quarter`: for a triple with `[X₀,X₁]=X₂` (cyclic), `exp(t X₀) = U⁻¹ exp(t X₁) U` with
  `U = exp((π/2) X₂)`; hence whatever period `exp(t X₁)` has, `exp(t X₀)` has too.
-/
open Matrix

namespace E3nnVerif.Theory

/-! ### 1. the y generator and its exponential -/

/-- `(i, j) ↦ l − i` if `i + j = 2l`, else `0` -/
noncomputable def yGen (l : ℕ) : Matrix (Fin (2 * l + 1)) (Fin (2 * l + 1)) ℝ :=
  fun i j => if (i : ℕ) + j = 2 * l then (l : ℝ) - (i : ℕ) else 0

/-- `cos((l−i)θ)` on the diagonal, `sin((l−i)θ)` on the anti-diagonal -/
noncomputable def blockRotY (l : ℕ) (θ : ℝ) : Matrix (Fin (2 * l + 1)) (Fin (2 * l + 1)) ℝ :=
  fun i j => (if i = j then Real.cos (((l : ℝ) - (i : ℕ)) * θ) else 0)
    + (if (i : ℕ) + j = 2 * l then Real.sin (((l : ℝ) - (i : ℕ)) * θ) else 0)

theorem blockRotY_zero (l : ℕ) : blockRotY l 0 = 1 := by
  ext i j
  by_cases h : i = j <;> simp [blockRotY, Matrix.one_apply, h]

theorem yGen_mul_apply (l : ℕ) (M : Matrix (Fin (2 * l + 1)) (Fin (2 * l + 1)) ℝ)
    (i j : Fin (2 * l + 1)) : (yGen l * M) i j = ((l : ℝ) - (i : ℕ)) * M (Fin.rev i) j := by
  rw [Matrix.mul_apply, Finset.sum_eq_single (Fin.rev i)]
  · have : (i : ℕ) + (Fin.rev i : ℕ) = 2 * l := by rw [Fin.val_rev]; omega
    unfold yGen; rw [if_pos this]
  · intro k _ hk
    have : ¬ ((i : ℕ) + k = 2 * l) := by
      intro h; apply hk; apply Fin.ext; rw [Fin.val_rev]; omega
    unfold yGen; rw [if_neg this, zero_mul]
  · simp

theorem hasDerivAt_blockRotY (l : ℕ) (t : ℝ) (i j : Fin (2 * l + 1)) :
    HasDerivAt (fun s => blockRotY l s i j) ((yGen l * blockRotY l t) i j) t := by
  rw [yGen_mul_apply]
  have hrev : (((Fin.rev i : Fin (2 * l + 1)) : ℕ) : ℝ) = 2 * (l : ℝ) - (i : ℕ) := by
    rw [Fin.val_rev]
    have : (i : ℕ) ≤ 2 * l := by omega
    rw [show 2 * l + 1 - ((i : ℕ) + 1) = 2 * l - (i : ℕ) by omega, Nat.cast_sub this]; push_cast; ring
  have e1 : (Fin.rev i = j) ↔ ((i : ℕ) + j = 2 * l) := by
    constructor
    · intro h; rw [← h, Fin.val_rev]; omega
    · intro h; apply Fin.ext; rw [Fin.val_rev]; omega
  have e2 : (((Fin.rev i : Fin (2 * l + 1)) : ℕ) + j = 2 * l) ↔ i = j := by
    rw [Fin.val_rev]
    constructor
    · intro h; apply Fin.ext; omega
    · intro h; rw [← h]; omega
  have hneg : ((l : ℝ) - ((Fin.rev i : Fin (2 * l + 1)) : ℕ)) = -((l : ℝ) - (i : ℕ)) := by rw [hrev]; ring
  simp only [blockRotY, hneg, e1, e2]
  generalize ((l : ℝ) - (i : ℕ)) = a
  have hc : HasDerivAt (fun s => Real.cos (a * s)) (-(Real.sin (a * t)) * a) t := by
    have := ((hasDerivAt_id' t).const_mul a).cos
    simpa using this
  have hs : HasDerivAt (fun s => Real.sin (a * s)) (Real.cos (a * t) * a) t := by
    have := ((hasDerivAt_id' t).const_mul a).sin
    simpa using this
  by_cases h1 : i = j <;> by_cases h2 : (i : ℕ) + j = 2 * l
  · simp only [if_pos h1, if_pos h2]
    refine (hc.add hs).congr_deriv ?_
    rw [show -a * t = -(a * t) by ring, Real.cos_neg, Real.sin_neg]; ring
  · simp only [if_pos h1, if_neg h2, add_zero, zero_add]
    refine hc.congr_deriv ?_
    rw [show -a * t = -(a * t) by ring, Real.sin_neg]; ring
  · simp only [if_neg h1, if_pos h2, add_zero, zero_add]
    refine hs.congr_deriv ?_
    rw [show -a * t = -(a * t) by ring, Real.cos_neg]; ring
  · simp only [if_neg h1, if_neg h2, add_zero, mul_zero]
    exact hasDerivAt_const t (0 : ℝ)

/-- **closed form** of the y one-parameter group -/
theorem expM_smul_yGen (l : ℕ) (θ : ℝ) : expM (θ • yGen l) = blockRotY l θ :=
  (eq_expM_of_hasDerivAt_entry (yGen l) (blockRotY l) (blockRotY_zero l)
    (fun t i j => hasDerivAt_blockRotY l t i j) θ).symm

/-- `blockRotY` is `2π`-periodic (every frequency `l − i` is an integer) -/
theorem blockRotY_add_int_mul_two_pi (l : ℕ) (θ : ℝ) (n : ℤ) :
    blockRotY l (θ + n * (2 * Real.pi)) = blockRotY l θ := by
  ext i j
  have e : ((l : ℝ) - (i : ℕ)) * (θ + n * (2 * Real.pi))
      = ((l : ℝ) - (i : ℕ)) * θ + (((l : ℤ) - ((i : ℕ) : ℤ)) * n : ℤ) * (2 * Real.pi) := by
    push_cast; ring
  simp only [blockRotY, e, Real.cos_add_int_mul_two_pi, Real.sin_add_int_mul_two_pi]

theorem expM_smul_yGen_periodic (l : ℕ) (θ : ℝ) (n : ℤ) :
    expM ((θ + n * (2 * Real.pi)) • yGen l) = expM (θ • yGen l) := by
  rw [expM_smul_yGen, expM_smul_yGen, blockRotY_add_int_mul_two_pi]

/-! ### 2. the adjoint action of a one-parameter group on a 2-plane of generators -/

variable {n : Type*} [Fintype n] [DecidableEq n]

/-- If `[Z,W] = V` and `[Z,V] = −W` then `exp(tZ) W = (cos t • W + sin t • V) exp(tZ)`. -/
theorem adjoint_rotation (Z W V : Matrix n n ℝ) (h1 : Z * W - W * Z = V) (h2 : Z * V - V * Z = -W)
    (t : ℝ) : expM (t • Z) * W = (Real.cos t • W + Real.sin t • V) * expM (t • Z) := by
  have key : ∀ u : n → ℝ, (Real.cos t • W + Real.sin t • V) *ᵥ (expM (t • Z) *ᵥ u)
      = expM (t • Z) *ᵥ (W *ᵥ u) := by
    intro u
    have hy := ode_unique Z (fun s => (Real.cos s • W + Real.sin s • V) *ᵥ (expM (s • Z) *ᵥ u))
      (fun s => by
        rw [hasDerivAt_pi]
        intro i
        have hw := fun j => hasDerivAt_pi.1 (hasDerivAt_expM_smul_mulVec Z u s) j
        have hm : ∀ j, HasDerivAt (fun r => (Real.cos r • W + Real.sin r • V) i j)
            ((-Real.sin s • W + Real.cos s • V) i j) s := by
          intro j
          have a := ((Real.hasDerivAt_cos s).mul_const (W i j)).add
            ((Real.hasDerivAt_sin s).mul_const (V i j))
          refine a.congr_deriv ?_
          simp [Matrix.add_apply, Matrix.smul_apply]
        have h := HasDerivAt.fun_sum (u := Finset.univ) (fun j _ => (hm j).mul (hw j))
        refine h.congr_deriv ?_
        -- algebra: M' w + M Z w = Z M w
        have hZW : Z * W = W * Z + V := by rw [← h1]; abel
        have hZV : Z * V = V * Z - W := by rw [sub_eq_iff_eq_add] at h2; rw [h2]; abel
        have alg : (-Real.sin s • W + Real.cos s • V) + (Real.cos s • W + Real.sin s • V) * Z
            = Z * (Real.cos s • W + Real.sin s • V) := by
          rw [Matrix.mul_add, Matrix.mul_smul, Matrix.mul_smul, hZW, hZV, Matrix.add_mul,
            Matrix.smul_mul, Matrix.smul_mul]
          simp only [smul_add, smul_sub, neg_smul]
          abel
        have : ∑ j, ((-Real.sin s • W + Real.cos s • V) i j * (expM (s • Z) *ᵥ u) j
              + (Real.cos s • W + Real.sin s • V) i j * (Z *ᵥ (expM (s • Z) *ᵥ u)) j)
            = (((-Real.sin s • W + Real.cos s • V) + (Real.cos s • W + Real.sin s • V) * Z)
                *ᵥ (expM (s • Z) *ᵥ u)) i := by
          rw [Matrix.add_mulVec, ← Matrix.mulVec_mulVec, Finset.sum_add_distrib]
          rfl
        rw [this, alg, ← Matrix.mulVec_mulVec]) t
    simpa [expM_zero] using hy
  have key' : ∀ u : n → ℝ, ((Real.cos t • W + Real.sin t • V) * expM (t • Z)) *ᵥ u
      = (expM (t • Z) * W) *ᵥ u := by
    intro u
    rw [← Matrix.mulVec_mulVec, ← Matrix.mulVec_mulVec]; exact key u
  exact (Matrix.toLin'.injective (LinearMap.ext fun v => by
    simp only [Matrix.toLin'_apply]; exact key' v)).symm

/-- For generators with `[X₂,X₀] = X₁`, `[X₁,X₂] = X₀`:  `U X₀ = X₁ U` with `U = exp((π/2) X₂)`. -/
theorem quarter_turn_intertwines (X0 X1 X2 : Matrix n n ℝ)
    (c1 : X1 * X2 - X2 * X1 = X0) (c2 : X2 * X0 - X0 * X2 = X1) :
    X1 * expM ((Real.pi / 2) • X2) = expM ((Real.pi / 2) • X2) * X0 := by
  have h2 : X2 * X1 - X1 * X2 = -X0 := by rw [← c1]; abel
  have := adjoint_rotation X2 X0 X1 c2 h2 (Real.pi / 2)
  rw [this]; simp

/-- `exp(t X₀) = U⁻¹ exp(t X₁) U`, `U = exp((π/2) X₂)`, `U⁻¹ = exp((−π/2) X₂)` -/
theorem expM_conj_quarter (X0 X1 X2 : Matrix n n ℝ)
    (c1 : X1 * X2 - X2 * X1 = X0) (c2 : X2 * X0 - X0 * X2 = X1) (t : ℝ) :
    expM (t • X0) = expM ((-(Real.pi / 2)) • X2) * expM (t • X1) * expM ((Real.pi / 2) • X2) := by
  have h := intertwiner_of_generator X0 X1 (expM ((Real.pi / 2) • X2))
    (quarter_turn_intertwines X0 X1 X2 c1 c2) t
  rw [Matrix.mul_assoc, h, ← Matrix.mul_assoc, expM_neg_smul_mul_smul, Matrix.one_mul]

/-- any period of `t ↦ exp(t X₁)` is a period of `t ↦ exp(t X₀)` -/
theorem expM_period_transfer (X0 X1 X2 : Matrix n n ℝ)
    (c1 : X1 * X2 - X2 * X1 = X0) (c2 : X2 * X0 - X0 * X2 = X1) (t T : ℝ)
    (hT : expM ((t + T) • X1) = expM (t • X1)) : expM ((t + T) • X0) = expM (t • X0) := by
  rw [expM_conj_quarter X0 X1 X2 c1 c2, hT, ← expM_conj_quarter X0 X1 X2 c1 c2]

/-! ### 3. determinant -/

theorem continuous_det_expM_smul (A : Matrix n n ℝ) : Continuous fun s : ℝ => (expM (s • A)).det := by
  apply Continuous.matrix_det
  apply continuous_matrix
  intro i j
  exact continuous_iff_continuousAt.mpr fun s => (hasDerivAt_expM_smul_entry A s i j).continuousAt

/-- `det exp(tA) = 1` for skew `A`: it is `±1` by orthogonality, `1` at `t = 0`, and continuous in `t`. -/
theorem det_expM_smul_of_skew (A : Matrix n n ℝ) (h : Aᵀ = -A) (t : ℝ) : (expM (t • A)).det = 1 := by
  have hcont := continuous_det_expM_smul A
  have hsq : ∀ s : ℝ, (expM (s • A)).det * (expM (s • A)).det = 1 := by
    intro s
    have := congrArg Matrix.det (exp_smul_orthogonal_of_skew A h s)
    rwa [Matrix.det_mul, Matrix.det_transpose, Matrix.det_one] at this
  by_contra hne
  have hm1 : (expM (t • A)).det = -1 := by
    rcases mul_self_eq_one_iff.mp (hsq t) with h1 | h1
    · exact absurd h1 hne
    · exact h1
  have h0 : (expM ((0 : ℝ) • A)).det = 1 := by rw [expM_zero_smul, Matrix.det_one]
  have hmem : (0 : ℝ) ∈ Set.uIcc ((fun s : ℝ => (expM (s • A)).det) 0) ((fun s : ℝ => (expM (s • A)).det) t) := by
    simp only [h0, hm1, Set.mem_uIcc]
    right; constructor <;> norm_num
  obtain ⟨s, _, hs⟩ := intermediate_value_uIcc (hcont.continuousOn) hmem
  have := hsq s
  simp only at hs
  rw [hs] at this
  norm_num at this

theorem det_eulerD_of_skew (Xx Xy : Matrix n n ℝ) (hx : Xxᵀ = -Xx) (hy : Xyᵀ = -Xy) (α β γ : ℝ) :
    (eulerD Xx Xy α β γ).det = 1 := by
  simp [eulerD, Matrix.det_mul, det_expM_smul_of_skew _ hx, det_expM_smul_of_skew _ hy]

end E3nnVerif.Theory
