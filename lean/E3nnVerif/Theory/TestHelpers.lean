import Mathlib.Analysis.Real.Sqrt
import Mathlib.Tactic.Linarith
import Mathlib.Tactic.FieldSimp
import Mathlib.Tactic.Ring
import E3nnVerif.Model.TestHelpers
/-
Helper lemmas for Props/C20.lean: the ℝ instance of `HNum`, the running mean, `vecMax`, the
slice decomposition used by `irrepErrors`, the error loop of `equivariance_error`, and the bounds of
`random_irreps`.
-/
namespace E3nnVerif.TestHelpers

open Classical in
noncomputable instance instHNumReal : HNum ℝ where
  ofNat := fun n => (n : ℝ)
  sqrt := Real.sqrt
  lt := fun a b => decide (a < b)
  le := fun a b => decide (a ≤ b)

@[simp] theorem lt_real (a b : ℝ) : HNum.lt a b = true ↔ a < b := by simp [HNum.lt]
@[simp] theorem le_real (a b : ℝ) : HNum.le a b = true ↔ a ≤ b := by simp [HNum.le]
@[simp] theorem ofNat_real (n : Nat) : (HNum.ofNat n : ℝ) = (n : ℝ) := rfl
@[simp] theorem sqrt_real (a : ℝ) : HNum.sqrt a = Real.sqrt a := rfl

theorem absK_real (a : ℝ) : absK a = |a| := by
  unfold absK
  by_cases h : a < 0
  · simp [h, abs_of_neg h]
  · simp only [lt_real, ofNat_real, Nat.cast_zero, abs_of_nonneg (not_lt.mp h)]
    rw [if_neg h]

theorem maxK_real (a b : ℝ) : maxK a b = max a b := by
  unfold maxK
  by_cases h : a < b
  · simp [h, max_eq_right h.le]
  · have : HNum.lt a b = false := by simpa [← Bool.not_eq_true] using h
    simp [this, max_eq_left (not_lt.mp h)]

/-! ### vecMax -/

theorem foldl_maxK_spec (xs : List ℝ) : ∀ x : ℝ,
    x ≤ xs.foldl maxK x ∧ (∀ e ∈ xs, e ≤ xs.foldl maxK x) ∧ xs.foldl maxK x ∈ x :: xs := by
  induction xs with
  | nil => intro x; simp
  | cons y ys ih =>
    intro x
    obtain ⟨h1, h2, h3⟩ := ih (maxK x y)
    rw [maxK_real] at h1 h2 h3
    simp only [List.foldl_cons, maxK_real]
    refine ⟨le_trans (le_max_left _ _) h1, ?_, ?_⟩
    · intro e he
      rcases List.mem_cons.mp he with rfl | he
      · exact le_trans (le_max_right _ _) h1
      · exact h2 e he
    · rcases List.mem_cons.mp h3 with h | h
      · rw [h]
        rcases max_choice x y with hm | hm <;> rw [hm] <;> simp
      · simp [h]

/-- `vecMax` is the maximum: an upper bound that is attained. -/
theorem vecMax_spec {v : List ℝ} {m : ℝ} (h : vecMax v = some m) : (∀ e ∈ v, e ≤ m) ∧ m ∈ v := by
  cases v with
  | nil => simp [vecMax] at h
  | cons x xs =>
    simp only [vecMax, Option.some.injEq] at h
    obtain ⟨h1, h2, h3⟩ := foldl_maxK_spec xs x
    rw [h] at h1 h2 h3
    refine ⟨?_, h3⟩
    intro e he
    rcases List.mem_cons.mp he with rfl | he
    · exact h1
    · exact h2 e he

theorem vecMax_eq_none {v : List ℝ} : vecMax v = none ↔ v = [] := by
  cases v <;> simp [vecMax]

theorem vecMax_le_iff {v : List ℝ} {m t : ℝ} (h : vecMax v = some m) : m ≤ t ↔ ∀ e ∈ v, e ≤ t := by
  obtain ⟨h1, h2⟩ := vecMax_spec h
  exact ⟨fun hm e he => le_trans (h1 e he) hm, fun ha => ha m h2⟩

/-! ### running mean -/

theorem runMeanAux_spec (n : Nat) (hn : n ≠ 0) (sums : List ℝ) : ∀ (k : Nat) (E : ℝ),
    runMeanAux n (k * n) E sums * (((k + sums.length : Nat) : ℝ) * n) = E * ((k : ℝ) * n) + sums.sum := by
  induction sums with
  | nil => intro k E; simp [runMeanAux]
  | cons S rest ih =>
    intro k E
    have hn' : (n : ℝ) ≠ 0 := Nat.cast_ne_zero.mpr hn
    have hk : ((n : ℝ) + (k : ℝ) * n) ≠ 0 := by positivity
    have e1 : k * n + n = (k + 1) * n := by ring
    simp only [runMeanAux, e1]
    have := ih (k + 1) (runStep n (k * n) E S)
    have e2 : k + (S :: rest).length = k + 1 + rest.length := by simp; ring
    rw [e2, this]
    simp only [runStep, ofNat_real, List.sum_cons]
    push_cast
    field_simp
    ring

/-- the running average of test.py:469-471 is the plain mean `Σ_batches S / (n_input · #batches)` -/
theorem runMean_eq_mean (n : Nat) (hn : n ≠ 0) (sums : List ℝ) :
    runMean n sums = sums.sum / ((n : ℝ) * sums.length) := by
  by_cases hs : sums = []
  · subst hs; simp [runMean, runMeanAux]
  have hl : (sums.length : ℝ) ≠ 0 := by
    simpa using hs
  have hn' : (n : ℝ) ≠ 0 := Nat.cast_ne_zero.mpr hn
  have := runMeanAux_spec n hn sums 0 (HNum.ofNat 0)
  simp only [Nat.cast_zero, zero_mul, mul_zero, zero_add] at this
  unfold runMean
  rw [eq_div_iff (by positivity)]
  rw [← this]; ring

/-! ### slices -/

section Slices
variable {K : Type}

/-- the (dim, components) pairs `irrepErrors` looks at -/
def blockSlices : List (Nat × Nat) → List K → List (Nat × List K)
  | [], _ => []
  | (mul, l) :: rest, E => (2 * l + 1, E.take (mul * (2 * l + 1))) :: blockSlices rest (E.drop (mul * (2 * l + 1)))

/-- total dimension of `[(mul, l)]` -/
def blocksDim : List (Nat × Nat) → Nat
  | [] => 0
  | (mul, l) :: rest => mul * (2 * l + 1) + blocksDim rest

theorem irrepErrors_eq [HNum K] (target : Nat → K) (blocks : List (Nat × Nat)) : ∀ E : List K,
    irrepErrors target blocks E = (blockSlices blocks E).map (fun ds => sliceError (target ds.1) ds.2) := by
  induction blocks with
  | nil => intro E; simp [irrepErrors, blockSlices]
  | cons b rest ih =>
    intro E
    obtain ⟨mul, l⟩ := b
    simp [irrepErrors, blockSlices, ih]

/-- the slices are consecutive and cover the first `irreps.dim` components: nothing is skipped -/
theorem blockSlices_cover (blocks : List (Nat × Nat)) : ∀ E : List K,
    (blockSlices blocks E).flatMap (fun ds => ds.2) = E.take (blocksDim blocks) := by
  induction blocks with
  | nil => intro E; simp [blockSlices, blocksDim]
  | cons b rest ih =>
    intro E
    obtain ⟨mul, l⟩ := b
    simp only [blockSlices, blocksDim, List.flatMap_cons, ih]
    rw [List.take_add]

/-- exactly normalised statistics: every component of an irrep of dimension `d` equals `val d` -/
def exactE (val : Nat → K) (blocks : List (Nat × Nat)) : List K :=
  blocks.flatMap (fun b => List.replicate (b.1 * (2 * b.2 + 1)) (val (2 * b.2 + 1)))

theorem blockSlices_exactE (val : Nat → K) (blocks : List (Nat × Nat)) :
    blockSlices blocks (exactE val blocks) =
      blocks.map (fun b => (2 * b.2 + 1, List.replicate (b.1 * (2 * b.2 + 1)) (val (2 * b.2 + 1)))) := by
  induction blocks with
  | nil => simp [blockSlices]
  | cons b rest ih =>
    obtain ⟨mul, l⟩ := b
    have : exactE val ((mul, l) :: rest) = List.replicate (mul * (2 * l + 1)) (val (2 * l + 1)) ++ exactE val rest := by
      simp [exactE]
    rw [this]
    simp only [blockSlices, List.map_cons]
    rw [List.take_left' (by simp), List.drop_left' (by simp), ih]

end Slices

theorem sliceError_le_iff (target atol : ℝ) (s : List ℝ) {x : ℝ} (h : sliceError target s = some x) :
    x ≤ atol ↔ ∀ e ∈ s, |e - target| ≤ atol := by
  unfold sliceError at h
  rw [vecMax_le_iff h]
  simp [absK_real]

theorem sliceError_eq_none (target : ℝ) (s : List ℝ) : sliceError target s = none ↔ s = [] := by
  unfold sliceError; rw [vecMax_eq_none]; simp

theorem firstFailure_none_iff (atol : ℝ) (errs : List (Option ℝ)) : ∀ i,
    firstFailure atol errs i = none ↔ ∀ x, some x ∈ errs → x ≤ atol := by
  induction errs with
  | nil => intro i; simp [firstFailure]
  | cons e rest ih =>
    intro i
    cases e with
    | none => simp [firstFailure, ih]
    | some x =>
      by_cases hx : x ≤ atol
      · have : HNum.le x atol = true := (le_real _ _).mpr hx
        simp [firstFailure, this, ih, hx]
      · have : HNum.le x atol = false := by simpa [← Bool.not_eq_true] using hx
        simp only [firstFailure, this]
        simp only [Bool.false_eq_true, if_false, reduceCtorEq, false_iff, not_forall]
        exact ⟨x, by simp, hx⟩

/-- one output passes iff every component of every non-empty slice is within `atol` of the target -/
theorem firstFailure_irrepErrors_none_iff (target : Nat → ℝ) (atol : ℝ) (blocks : List (Nat × Nat)) (E : List ℝ) :
    firstFailure atol (irrepErrors target blocks E) 0 = none ↔
      ∀ ds ∈ blockSlices blocks E, ∀ e ∈ ds.2, |e - target ds.1| ≤ atol := by
  rw [firstFailure_none_iff, irrepErrors_eq]
  constructor
  · intro h ds hds e he
    cases hx : sliceError (target ds.1) ds.2 with
    | none => rw [sliceError_eq_none] at hx; rw [hx] at he; simp at he
    | some x =>
      have := h x (by rw [List.mem_map]; exact ⟨ds, hds, hx⟩)
      exact (sliceError_le_iff _ _ _ hx).mp this e he
  · intro h x hx
    rw [List.mem_map] at hx
    obtain ⟨ds, hds, hx⟩ := hx
    exact (sliceError_le_iff _ _ _ hx).mpr (h ds hds)

/-! ### the error loop of `equivariance_error` -/

/-- pointwise `≤` of two vectors of the same length -/
abbrev VLe (a b : List ℝ) : Prop := List.Forall₂ (· ≤ ·) a b

theorem VLe.refl (a : List ℝ) : VLe a a := by
  induction a with
  | nil => exact .nil
  | cons x xs ih => exact .cons le_rfl ih

theorem VLe.trans {a b c : List ℝ} (h1 : VLe a b) (h2 : VLe b c) : VLe a c := by
  induction h1 generalizing c with
  | nil => cases h2; exact .nil
  | cons hab _ ih =>
    cases h2 with
    | cons hbc h2' => exact .cons (le_trans hab hbc) (ih h2')

theorem VLe.mem {a b : List ℝ} (h : VLe a b) : ∀ e ∈ a, ∃ m ∈ b, e ≤ m := by
  induction h with
  | nil => simp
  | cons hab _ ih =>
    intro e he
    rcases List.mem_cons.mp he with rfl | he
    · exact ⟨_, by simp, hab⟩
    · obtain ⟨m, hm, hle⟩ := ih e he
      exact ⟨m, by simp [hm], hle⟩

theorem updBiggest_length (b e : List ℝ) (h : e.length = b.length) : (updBiggest b e).length = b.length := by
  simp [updBiggest, h]

theorem updBiggest_ge (b : List ℝ) : ∀ e : List ℝ, e.length = b.length →
    VLe b (updBiggest b e) ∧ VLe e (updBiggest b e) := by
  induction b with
  | nil => intro e h; cases e <;> simp_all [updBiggest]
  | cons x xs ih =>
    intro e h
    cases e with
    | nil => simp at h
    | cons y ys =>
      obtain ⟨h1, h2⟩ := ih ys (by simpa using h)
      simp only [updBiggest, List.zipWith_cons_cons] at h1 h2 ⊢
      by_cases hxy : x < y
      · have hb : HNum.lt x y = true := (lt_real _ _).mpr hxy
        simp only [hb, if_true]
        exact ⟨.cons hxy.le h1, .cons le_rfl h2⟩
      · have hb : HNum.lt x y = false := by simpa [← Bool.not_eq_true] using hxy
        simp only [hb, Bool.false_eq_true, if_false]
        exact ⟨.cons le_rfl h1, .cons (not_lt.mp hxy) h2⟩

/-- every entry of the result is one of the candidates (`-inf` start or a drawn error) -/
theorem updBiggest_mem (b : List ℝ) : ∀ e : List ℝ, ∀ o : Nat, ∀ r, (updBiggest b e)[o]? = some r →
    b[o]? = some r ∨ e[o]? = some r := by
  intro e o r h
  simp only [updBiggest, List.getElem?_zipWith] at h
  cases he : e[o]? with
  | none => simp [he] at h
  | some y =>
    cases hb : b[o]? with
    | none => simp [he, hb] at h
    | some x =>
      simp only [he, hb, Option.some.injEq] at h
      by_cases hxy : HNum.lt x y = true
      · right; simp [hxy] at h; simp [h]
      · left; simp [hxy] at h; simp [h]

theorem foldl_updBiggest_length (vs : List (List ℝ)) : ∀ b : List ℝ, (∀ v ∈ vs, v.length = b.length) →
    (vs.foldl updBiggest b).length = b.length := by
  induction vs with
  | nil => intro b _; rfl
  | cons v vs ih =>
    intro b h
    have hv := h v (by simp)
    simp only [List.foldl_cons]
    rw [ih (updBiggest b v) (by intro w hw; rw [updBiggest_length b v hv]; exact h w (by simp [hw]))]
    exact updBiggest_length b v hv

theorem foldl_updBiggest_ge (vs : List (List ℝ)) : ∀ b : List ℝ, (∀ v ∈ vs, v.length = b.length) →
    VLe b (vs.foldl updBiggest b) ∧ ∀ v ∈ vs, VLe v (vs.foldl updBiggest b) := by
  induction vs with
  | nil => intro b _; exact ⟨VLe.refl b, by simp⟩
  | cons v vs ih =>
    intro b h
    have hv := h v (by simp)
    obtain ⟨u1, u2⟩ := updBiggest_ge b v hv
    obtain ⟨h1, h2⟩ := ih (updBiggest b v)
      (by intro w hw; rw [updBiggest_length b v hv]; exact h w (by simp [hw]))
    simp only [List.foldl_cons]
    refine ⟨u1.trans h1, ?_⟩
    intro w hw
    rcases List.mem_cons.mp hw with rfl | hw
    · exact u2.trans h1
    · exact h2 w hw

theorem foldl_updBiggest_mem (vs : List (List ℝ)) : ∀ (b : List ℝ) (o : Nat) (r : ℝ),
    (vs.foldl updBiggest b)[o]? = some r → b[o]? = some r ∨ ∃ v ∈ vs, v[o]? = some r := by
  induction vs with
  | nil => intro b o r h; left; simpa using h
  | cons v vs ih =>
    intro b o r h
    simp only [List.foldl_cons] at h
    rcases ih _ o r h with h | ⟨w, hw, h⟩
    · rcases updBiggest_mem b v o r h with h | h
      · left; exact h
      · right; exact ⟨v, by simp, h⟩
    · right; exact ⟨w, by simp [hw], h⟩

section Loop
variable {C : Type}

/-- the errors of the draws used for one case: draw numbers `i, i+s, i+2s, …` (`k` of them) -/
noncomputable def caseDevs (dev : Nat → C → List ℝ) (c : C) (s : Nat) : Nat → Nat → List (List ℝ)
  | 0, _ => []
  | k + 1, i => dev i c :: caseDevs dev c s k (i + s)

theorem mem_caseDevs (dev : Nat → C → List ℝ) (c : C) (s : Nat) : ∀ (k i t : Nat), t < k →
    dev (i + t * s) c ∈ caseDevs dev c s k i := by
  intro k
  induction k with
  | zero => intro i t h; omega
  | succ k ih =>
    intro i t h
    cases t with
    | zero => simp [caseDevs]
    | succ t =>
      have := ih (i + s) t (by omega)
      have e : i + s + t * s = i + (t + 1) * s := by ring
      rw [e] at this
      simp [caseDevs, this]

theorem caseDevs_mem (dev : Nat → C → List ℝ) (c : C) (s : Nat) : ∀ (k i : Nat) (v : List ℝ),
    v ∈ caseDevs dev c s k i → ∃ t, t < k ∧ v = dev (i + t * s) c := by
  intro k
  induction k with
  | zero => intro i v h; simp [caseDevs] at h
  | succ k ih =>
    intro i v h
    simp only [caseDevs, List.mem_cons] at h
    rcases h with rfl | h
    · exact ⟨0, by omega, by simp⟩
    · obtain ⟨t, ht, hv⟩ := ih (i + s) v h
      refine ⟨t + 1, by omega, ?_⟩
      rw [hv]; congr 1; ring

/-- `trialLoop` with the stride as a parameter -/
noncomputable def trialLoopG (dev : Nat → C → List ℝ) (tests : List C) (s : Nat) : Nat → Nat → List (List ℝ) → List (List ℝ)
  | 0, _, st => st
  | k + 1, i, st => trialLoopG dev tests s k (i + s) (trialStep dev i tests st)

theorem trialLoop_eq (dev : Nat → C → List ℝ) (tests : List C) : ∀ k i st,
    trialLoop dev tests k i st = trialLoopG dev tests tests.length k i st := by
  intro k
  induction k with
  | zero => intro i st; rfl
  | succ k ih => intro i st; simp [trialLoop, trialLoopG, ih]

theorem trialLoopG_nil (dev : Nat → C → List ℝ) (s : Nat) : ∀ k i, trialLoopG dev [] s k i [] = [] := by
  intro k
  induction k with
  | zero => intro i; rfl
  | succ k ih => intro i; simp [trialLoopG, trialStep, ih]

theorem trialLoopG_cons (dev : Nat → C → List ℝ) (c : C) (cs : List C) (s : Nat) : ∀ k i b bs,
    trialLoopG dev (c :: cs) s k i (b :: bs) =
      (caseDevs dev c s k i).foldl updBiggest b :: trialLoopG dev cs s k (i + 1) bs := by
  intro k
  induction k with
  | zero => intro i b bs; simp [trialLoopG, caseDevs]
  | succ k ih =>
    intro i b bs
    simp only [trialLoopG, trialStep, caseDevs, List.foldl_cons]
    rw [ih]
    have e : i + s + 1 = i + 1 + s := by ring
    rw [e]

/-- the loop decouples: entry `j` of the state is the fold over the draws `i+j, i+j+s, …` -/
theorem trialLoopG_getElem (dev : Nat → C → List ℝ) (s k : Nat) : ∀ (tests : List C) (i : Nat) (st : List (List ℝ)),
    st.length = tests.length → ∀ j c, tests[j]? = some c →
      ∃ b, st[j]? = some b ∧
        (trialLoopG dev tests s k i st)[j]? = some ((caseDevs dev c s k (i + j)).foldl updBiggest b) := by
  intro tests
  induction tests with
  | nil => intro i st _ j c h; simp at h
  | cons c0 cs ih =>
    intro i st hlen j c h
    cases st with
    | nil => simp at hlen
    | cons b bs =>
      rw [trialLoopG_cons]
      cases j with
      | zero =>
        simp only [List.getElem?_cons_zero, Option.some.injEq] at h
        subst h
        exact ⟨b, by simp, by simp⟩
      | succ j =>
        simp only [List.getElem?_cons_succ] at h ⊢
        obtain ⟨b', hb', hr⟩ := ih (i + 1) bs (by simpa using hlen) j c h
        refine ⟨b', hb', ?_⟩
        rw [hr]
        have e : i + 1 + j = i + (j + 1) := by ring
        rw [e]

theorem trialLoopG_length (dev : Nat → C → List ℝ) (s k : Nat) : ∀ (tests : List C) (i : Nat) (st : List (List ℝ)),
    st.length = tests.length → (trialLoopG dev tests s k i st).length = tests.length := by
  intro tests
  induction tests with
  | nil => intro i st h; cases st with
    | nil => simp [trialLoopG_nil]
    | cons _ _ => simp at h
  | cons c0 cs ih =>
    intro i st hlen
    cases st with
    | nil => simp at hlen
    | cons b bs =>
      rw [trialLoopG_cons]
      simp [ih (i + 1) bs (by simpa using hlen)]

/-- **decoupling of `errorLoop`**: the entry reported for the `j`-th case `c` is the fold of
`torch.where(errors > biggest, …)` over the errors of the draws `j, j+L, j+2L, …` (L = number of cases),
started at `-inf`. -/
theorem errorLoop_getElem (tests : List C) (nOut : Nat) (bot : ℝ) (dev : Nat → C → List ℝ) (ntrials : Nat)
    (j : Nat) (c : C) (h : tests[j]? = some c) :
    (errorLoop tests nOut bot dev ntrials)[j]? =
      some (c, (caseDevs dev c tests.length ntrials j).foldl updBiggest (List.replicate nOut bot)) := by
  unfold errorLoop
  rw [trialLoop_eq]
  obtain ⟨b, hb, hr⟩ := trialLoopG_getElem dev tests.length ntrials tests 0
    (tests.map (fun _ => List.replicate nOut bot)) (by simp) j c h
  have hb' : b = List.replicate nOut bot := by
    simp only [List.getElem?_map, h, Option.map_some, Option.some.injEq] at hb
    exact hb.symm
  subst hb'
  rw [List.getElem?_zip_eq_some]
  exact ⟨h, by simpa using hr⟩

theorem errorLoop_length (tests : List C) (nOut : Nat) (bot : ℝ) (dev : Nat → C → List ℝ) (ntrials : Nat) :
    (errorLoop tests nOut bot dev ntrials).length = tests.length := by
  unfold errorLoop
  rw [trialLoop_eq, List.length_zip, trialLoopG_length _ _ _ _ _ _ (by simp)]
  simp

end Loop

/-! ### random_irreps -/

theorem randint_bounds {o : Nat → Nat} {i : Nat} {a b v : Int} (h : randint o i a b = some v) :
    a ≤ v ∧ v ≤ b := by
  unfold randint at h
  split at h
  · simp at h
  · rename_i hab
    simp only [Option.some.injEq] at h
    have hpos : 0 < b - a + 1 := by omega
    have h1 := Int.emod_nonneg (o i : Int) (ne_of_gt hpos)
    have h2 := Int.emod_lt_of_pos (o i : Int) hpos
    omega

theorem randint_isSome (o : Nat → Nat) (i : Nat) {a b : Int} (h : a ≤ b) : ∃ v, randint o i a b = some v := by
  unfold randint
  rw [if_neg (by omega)]
  exact ⟨_, rfl⟩

theorem randint_none {o : Nat → Nat} {i : Nat} {a b : Int} (h : b < a) : randint o i a b = none := by
  simp [randint, h]

/-- the bounds every generated entry satisfies -/
def EntryOk (a : RIArgs) (e : MulIr) : Prop :=
  a.mulMin ≤ e.1 ∧ e.1 ≤ a.mulMax ∧ 0 ≤ e.2.1 ∧ e.2.1 ≤ a.lmax ∧ (e.2.2 = 1 ∨ e.2.2 = -1)

theorem genEntries_spec (a : RIArgs) (o : Nat → Nat) : ∀ (k i : Nat) (es : List MulIr),
    genEntries a o k i = some es → es.length = k ∧ ∀ e ∈ es, EntryOk a e := by
  intro k
  induction k with
  | zero => intro i es h; simp [genEntries] at h; subst h; simp
  | succ k ih =>
    intro i es h
    simp only [genEntries] at h
    split at h
    · rename_i m l rest hm hl hrest
      simp only [Option.some.injEq] at h
      subst h
      obtain ⟨hlen, hall⟩ := ih (i + 3) rest hrest
      refine ⟨by simp [hlen], ?_⟩
      intro e he
      rcases List.mem_cons.mp he with rfl | he
      · have := randint_bounds hm
        have := randint_bounds hl
        unfold EntryOk
        dsimp only
        refine ⟨by omega, by omega, by omega, by omega, ?_⟩
        split <;> simp
      · exact hall e he
    · simp at h

theorem genEntries_isSome (a : RIArgs) (o : Nat → Nat) (h1 : a.mulMin ≤ a.mulMax) (h2 : 0 ≤ a.lmax) :
    ∀ (k i : Nat), ∃ es, genEntries a o k i = some es := by
  intro k
  induction k with
  | zero => intro i; exact ⟨[], rfl⟩
  | succ k ih =>
    intro i
    obtain ⟨m, hm⟩ := randint_isSome o i h1
    obtain ⟨l, hl⟩ := randint_isSome o (i + 1) h2
    obtain ⟨rest, hr⟩ := ih (i + 3)
    refine ⟨(m, l, if o (i + 2) % 2 == 0 then 1 else -1) :: rest, ?_⟩
    simp [genEntries, hm, hl, hr]

theorem setLastMul_length (m : Int) : ∀ es : List MulIr, (setLastMul m es).length = es.length := by
  intro es
  induction es with
  | nil => rfl
  | cons x rest ih =>
    cases rest with
    | nil => obtain ⟨_, _, _⟩ := x; simp [setLastMul]
    | cons y rest => simp only [setLastMul, List.length_cons] at ih ⊢; omega

/-- entries of the patched list: old entries, or an old entry whose multiplicity was replaced by `m` -/
theorem setLastMul_mem (m : Int) : ∀ (es : List MulIr) (e : MulIr), e ∈ setLastMul m es →
    e ∈ es ∨ (e.1 = m ∧ ∃ e' ∈ es, e.2 = e'.2) := by
  intro es
  induction es with
  | nil => intro e h; simp [setLastMul] at h
  | cons x rest ih =>
    intro e h
    cases rest with
    | nil =>
      obtain ⟨xm, xl, xp⟩ := x
      simp only [setLastMul, List.mem_singleton] at h
      subst h
      right; exact ⟨rfl, (xm, xl, xp), by simp, rfl⟩
    | cons y rest =>
      simp only [setLastMul, List.mem_cons] at h
      rcases h with rfl | h
      · left; simp
      · rcases ih e (by simpa [List.mem_cons] using h) with h | ⟨h1, e', he', h2⟩
        · left; simp only [List.mem_cons] at h ⊢; right; exact h
        · right; exact ⟨h1, e', by simp only [List.mem_cons] at he' ⊢; right; exact he', h2⟩

theorem setLastMul_has (m : Int) : ∀ es : List MulIr, es ≠ [] → ∃ e ∈ setLastMul m es, e.1 = m := by
  intro es
  induction es with
  | nil => intro h; exact absurd rfl h
  | cons x rest ih =>
    intro _
    cases rest with
    | nil => obtain ⟨xm, xl, xp⟩ := x; exact ⟨(m, xl, xp), by simp [setLastMul], rfl⟩
    | cons y rest =>
      obtain ⟨e, he, hm⟩ := ih (by simp)
      exact ⟨e, by simp only [setLastMul, List.mem_cons]; right; simpa [List.mem_cons] using he, hm⟩

end E3nnVerif.TestHelpers
