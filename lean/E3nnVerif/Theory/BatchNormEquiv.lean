import E3nnVerif.Theory.BatchNormReal
/-
Equivariance of the BatchNorm model over ℝ: a block-diagonal matrix that is orthogonal on every irrep block
and the identity on the even scalars commutes with `forward` in every mode, and does not change the
state update.
-/
namespace E3nnVerif.BN
open Finset

variable {o : Opts ℝ}

/-- per block `k` an orthogonal `d×d` matrix `D k` (`Dᵀ D = 1`), equal to `1` on the even-scalar blocks.
For `D = irreps.D_from_matrix(R)`, `R ∈ O(3)`, this is orthogonality of the Wigner matrices (C03). -/
def OrthBlocks (o : Opts ℝ) (D : Nat → Nat → Nat → ℝ) : Prop :=
  ∀ blk ∈ blocks o,
    (∀ a b, a < blk.d → b < blk.d → ∑ i ∈ range blk.d, D blk.k i a * D blk.k i b = if a = b then 1 else 0)
    ∧ (blk.isScalar = true → D blk.k 0 0 = 1)

theorem field_act (D : Nat → Nat → Nat → ℝ) (x : T3 ℝ) {blk : Block} (hb : blk ∈ blocks o) (b s : Nat)
    {u i : Nat} (hu : u < blk.mul) (hi : i < blk.d) :
    field (act o D x) blk b s u i = ∑ a ∈ range blk.d, D blk.k i a * field x blk b s u a := by
  simp only [act, actB]
  rw [field_assemble o _ hb b s hu hi]
  simp [actField, sumN_real]

theorem blk_d (hb : blk ∈ blocks o) : 0 < blk.d ∧ (blk.isScalar = true → blk.d = 1) :=
  scalar_d o.affine o.includeBias o.irreps 0 0 0 0 0 0 blk hb

section block
variable {D : Nat → Nat → Nat → ℝ} (hD : OrthBlocks o D) (st : State ℝ) (B S : Nat) (x : T3 ℝ)
  {blk : Block} (hb : blk ∈ blocks o) {u : Nat} (hu : u < blk.mul)
include hD hb hu

theorem field_act_scalar (hs : blk.isScalar = true) (b s : Nat) :
    field (act o D x) blk b s u 0 = field x blk b s u 0 := by
  have hd := (blk_d hb).2 hs
  rw [field_act D x hb b s hu (by omega), hd]
  simp [(hD blk hb).2 hs]

theorem meanOf_equiv (hs : blk.isScalar = true) (r : Nat) :
    meanOf o st B S blk (field (act o D x) blk) r u = meanOf o st B S blk (field x blk) r u :=
  meanOf_congr st B S blk (fun b s => field_act_scalar hD x hb hu hs b s) r

theorem centredOf_equiv (b s : Nat) {i : Nat} (hi : i < blk.d) :
    centredOf o st B S (act o D x) blk b s u i
      = ∑ a ∈ range blk.d, D blk.k i a * centredOf o st B S x blk b s u a := by
  cases hs : blk.isScalar
  · simp only [centredOf, centred, hs, Bool.false_eq_true, if_false]
    exact field_act D x hb b s hu hi
  · have hd := (blk_d hb).2 hs
    have hi0 : i = 0 := by omega
    subst hi0
    simp only [centredOf, centred, hs, if_true, hd, sum_range_one, (hD blk hb).2 hs, one_mul]
    rw [field_act_scalar hD x hb hu hs, meanOf_equiv hD st B S x hb hu hs]

theorem compNorm_equiv (b s : Nat) :
    compNorm o.normalization blk.d (centredOf o st B S (act o D x) blk) b s u
      = compNorm o.normalization blk.d (centredOf o st B S x blk) b s u := by
  have key : ∑ i ∈ range blk.d, centredOf o st B S (act o D x) blk b s u i * centredOf o st B S (act o D x) blk b s u i
      = ∑ i ∈ range blk.d, centredOf o st B S x blk b s u i * centredOf o st B S x blk b s u i := by
    rw [← orth_norm blk.d (D blk.k) (fun a => centredOf o st B S x blk b s u a) (hD blk hb).1]
    refine sum_congr rfl fun i hi => ?_
    rw [centredOf_equiv hD st B S x hb hu b s (mem_range.1 hi)]
  cases hn : o.normalization <;> simp only [compNorm_real, key]

theorem normOf_equiv (r : Nat) :
    normOf o st B S blk (centredOf o st B S (act o D x) blk) r u
      = normOf o st B S blk (centredOf o st B S x blk) r u :=
  normOf_congr st B S blk (fun b s => compNorm_equiv hD st B S x hb hu b s) r

theorem blockOut_equiv (b s : Nat) {i : Nat} (hi : i < blk.d) :
    blockOut o st B S (act o D x) blk b s u i = actField blk D (blockOut o st B S x blk) b s u i := by
  have hsc := scaleOf_congr (o := o) st blk (r := bidx o b) (normOf_equiv hD st B S x hb hu (bidx o b))
  simp only [blockOut, actField, sumN_real]
  cases hs : blk.isScalar
  · simp only [Bool.and_false, Bool.false_eq_true, if_false]
    rw [centredOf_equiv hD st B S x hb hu b s hi, hsc, sum_mul]
    exact sum_congr rfl fun a _ => by ring
  · have hd := (blk_d hb).2 hs
    have hi0 : i = 0 := by omega
    subst hi0
    split
    · simp only [hd, sum_range_one, (hD blk hb).2 hs, one_mul]
      rw [centredOf_equiv hD st B S x hb hu b s (by omega), hsc]
      simp only [hd, sum_range_one, (hD blk hb).2 hs, one_mul]
    · simp only [hd, sum_range_one, (hD blk hb).2 hs, one_mul]
      rw [centredOf_equiv hD st B S x hb hu b s (by omega), hsc]
      simp only [hd, sum_range_one, (hD blk hb).2 hs, one_mul]

end block

/-- `forward (D x) = D (forward x)` and the state update is the same, in every mode -/
theorem forwardCore_equiv {D : Nat → Nat → Nat → ℝ} (hD : OrthBlocks o D) (st : State ℝ) (B S : Nat) (x : T3 ℝ) :
    forwardCore o st B S (act o D x) = ((forwardCore o st B S x).1, act o D (forwardCore o st B S x).2) := by
  refine Prod.ext ?_ ?_
  · simp only [forwardCore_state]
    split
    · congr 1
      · simp only [newRM]
        split
        · rfl
        · refine cat_map_congr (sz := fun blk => blk.mul) ?_
          intro blk hb u hu
          have hb' := List.mem_filter.1 hb
          rw [meanOf_equiv hD st B S x hb'.1 hu (by simpa using hb'.2)]
      · simp only [newRV]
        split
        · rfl
        · refine cat_map_congr (sz := fun blk => blk.mul) ?_
          intro blk hb u hu
          rw [normOf_equiv hD st B S x hb hu]
    · rfl
  · simp only [forwardCore_out]
    have e : act o D (assemble (blocks o) (blockOut o st B S x))
        = assemble (blocks o) (fun blk => actField blk D (field (assemble (blocks o) (blockOut o st B S x)) blk)) := rfl
    rw [e]
    refine assemble_congr _ ?_
    intro blk hb b s u i hu hi
    rw [blockOut_equiv hD st B S x hb hu b s hi]
    simp only [actField, sumN_real]
    refine sum_congr rfl fun a ha => ?_
    rw [field_assemble o _ hb b s hu (mem_range.1 ha)]

theorem step_equiv {D : Nat → Nat → Nat → ℝ} (hD : OrthBlocks o D) (st : State ℝ) (op : Op ℝ) :
    step o st (actOp o D op) = ((step o st op).1, actOut o D (step o st op).2) := by
  cases op with
  | train => rfl
  | eval => rfl
  | forward B S dim x =>
    simp only [actOp, step]
    split
    · rfl
    · split
      · rfl
      · simp only [forwardCore_equiv hD, actOut]

theorem run_equiv {D : Nat → Nat → Nat → ℝ} (hD : OrthBlocks o D) (st : State ℝ) (ops : List (Op ℝ)) :
    run o st (ops.map (actOp o D)) = ((run o st ops).1, (run o st ops).2.map (actOut o D)) := by
  induction ops generalizing st with
  | nil => rfl
  | cons op ops ih =>
    simp only [List.map_cons, run, step_equiv hD, ih]

end E3nnVerif.BN
