import E3nnVerif.Theory.S2GridBasic
/-
Closed forms of the index helper `_expand_matrix(range(lmax+1))` and of the buffers `shb` of
`ToS2Grid` / `FromS2Grid` (the literal einsums of the model), and the flat index `i = l² + k`.
-/
namespace E3nnVerif.S2Grid
open E3nnVerif Finset

theorem offset_eq_take (ls : List ℕ) (j : ℕ) : offset ls j = ((ls.take j).map fun l => 2 * l + 1).sum := by
  induction ls generalizing j with
  | nil => simp [offset]
  | cons l ls ih =>
    cases j with
    | zero => simp [offset]
    | succ j => simp [offset, ih]

theorem sum_odd_range (j : ℕ) : ((List.range j).map fun l => 2 * l + 1).sum = j ^ 2 := by
  induction j with
  | zero => simp
  | succ j ih => rw [List.range_succ, List.map_append, List.sum_append, ih]; simp; ring

theorem offset_range (n l : ℕ) (h : l ≤ n) : offset (List.range n) l = l ^ 2 := by
  rw [offset_eq_take, List.take_range, Nat.min_eq_left h, sum_odd_range]

theorem listMax_range (lmax : ℕ) : listMax (List.range (lmax + 1)) = some lmax := by
  have key : ∀ (n s : ℕ), listMax ((List.range' s (n + 1))) = some (s + n) := by
    intro n
    induction n with
    | zero => intro s; simp [List.range', listMax]
    | succ n ih =>
      intro s
      rw [List.range'_succ, listMax, ih (s + 1)]
      have : ¬ (s + 1 + n < s) := by omega
      simp only [if_neg this]; congr 1; omega
  rw [List.range_eq_range', key lmax 0]; simp

/-- `_expand_matrix(range(lmax+1))[l, m, i]` at `K = ℝ` -/
theorem expandStd_real (lmax l m i : ℕ) (hl : l ≤ lmax) :
    (expandStd lmax l m i : ℝ) =
      if l ^ 2 ≤ i ∧ i < l ^ 2 + (2 * l + 1) ∧ lmax - l ≤ m ∧ m < lmax + l + 1 ∧ m - (lmax - l) = i - l ^ 2
      then 1 else 0 := by
  have h1 : (List.range (lmax + 1))[l]? = some l := by
    rw [List.getElem?_range (by omega)]
  simp only [expandStd, expandEntry, h1, offset_range (lmax + 1) l (by omega), one_real, zero_real]

private theorem sq_succ_le {l l' : ℕ} (h : l < l') : l ^ 2 + 2 * l + 1 ≤ l' ^ 2 := by
  have := Nat.pow_le_pow_left (show l + 1 ≤ l' by omega) 2
  have e : (l + 1) ^ 2 = l ^ 2 + 2 * l + 1 := by ring
  omega

/-- at a flat index `i = l'² + k`, `k ≤ 2l'`:  the entry is `1` iff `l = l'` and `m = lmax − l + k` -/
theorem expandStd_flat (lmax l m l' k : ℕ) (hl : l ≤ lmax) (hk : k ≤ 2 * l') :
    (expandStd lmax l m (l' ^ 2 + k) : ℝ) = if l = l' ∧ m = lmax - l + k then 1 else 0 := by
  rw [expandStd_real lmax l m _ hl]
  by_cases h : l = l'
  · subst h
    by_cases h2 : m = lmax - l + k
    · have hs : l = l ∧ m = lmax - l + k := ⟨rfl, h2⟩
      rw [if_pos hs, if_pos]; omega
    · have hs : ¬ (l = l ∧ m = lmax - l + k) := fun hh => h2 hh.2
      rw [if_neg hs, if_neg]; omega
  · have hs : ¬ (l = l' ∧ m = lmax - l + k) := fun hh => h hh.1
    rw [if_neg hs, if_neg]
    rcases Nat.lt_or_gt_of_ne h with h3 | h3
    · have := sq_succ_le h3; omega
    · have := sq_succ_le h3; omega

theorem flat_lt (lmax l k : ℕ) (hl : l ≤ lmax) (hk : k ≤ 2 * l) : l ^ 2 + k < (lmax + 1) ^ 2 := by
  have := Nat.pow_le_pow_left (show l + 1 ≤ lmax + 1 by omega) 2
  have e : (l + 1) ^ 2 = l ^ 2 + 2 * l + 1 := by ring
  omega

/-- `Σ_{i < (L+1)²} f i = Σ_{l ≤ L} Σ_{k ≤ 2l} f (l² + k)` -/
theorem sum_flat (L : ℕ) (f : ℕ → ℝ) :
    ∑ i ∈ range ((L + 1) ^ 2), f i = ∑ l ∈ range (L + 1), ∑ k ∈ range (2 * l + 1), f (l ^ 2 + k) := by
  induction L with
  | zero => simp
  | succ L ih =>
    have e : (L + 1 + 1) ^ 2 = (L + 1) ^ 2 + (2 * (L + 1) + 1) := by ring
    rw [e, Finset.sum_range_add, ih, Finset.sum_range_succ _ (L + 1)]

/-- closed form of `ToS2Grid.shb[m, b, i]` at `i = l² + k` -/
theorem shbTo_flat (lmax : ℕ) (n : ℕ → ℝ) (P : ℕ → ℕ → ℝ) (m b l k : ℕ) (hl : l ≤ lmax) (hk : k ≤ 2 * l) :
    shbTo lmax n P m b (l ^ 2 + k) = if m = lmax - l + k then n l * P b (l ^ 2 + k) else 0 := by
  simp only [shbTo, shbToWith, sumRange_real]
  rw [Finset.sum_eq_single l]
  · by_cases hm : m = lmax - l + k
    · rw [if_pos hm, Finset.sum_eq_single (l ^ 2 + k)]
      · rw [expandStd_flat lmax l m l k hl hk, if_pos ⟨rfl, hm⟩]; ring
      · intro j _ hj
        rw [expandStd_real lmax l m j hl, if_neg, zero_mul, zero_mul, zero_mul]
        intro hh; apply hj; omega
      · intro hh; exact absurd (Finset.mem_range.mpr (flat_lt lmax l k hl hk)) hh
    · rw [if_neg hm]
      refine Finset.sum_eq_zero fun j _ => ?_
      rw [expandStd_flat lmax l m l k hl hk, if_neg (fun hh => hm hh.2)]; ring
  · intro l2 hl2 hne
    refine Finset.sum_eq_zero fun j _ => ?_
    have hl2' : l2 ≤ lmax := by have := Finset.mem_range.mp hl2; omega
    rw [expandStd_flat lmax l2 m l k hl2' hk, if_neg (fun hh => hne hh.1)]; ring
  · intro hh; exact absurd (Finset.mem_range.mpr (by omega : l < lmax + 1)) hh

theorem shbFrom_eq (lmax N M : ℕ) (n : ℕ → ℝ) (P : ℕ → ℕ → ℝ) (m b i : ℕ) :
    shbFrom lmax N M n P m b i = shbTo lmax n P m b i * qwFrom N M b := by
  simp only [shbFrom, shbFromWith, shbTo, shbToWith, sumRange_real, Finset.sum_mul]

end E3nnVerif.S2Grid
