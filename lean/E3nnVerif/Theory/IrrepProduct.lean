/-
Helper lemmas for C06: `Irrep.__mul__` (triangle rule) and `Irrep.iterator`.
-/
import E3nnVerif.Theory.IrrepsBook
open E3nnVerif.Model.Irreps
namespace E3nnVerif.Theory.Irreps

/-! ### Irrep product -/

theorem parity_mul_toInt (p q : Parity) : (p.mul q).toInt = p.toInt * q.toInt := by
  cases p <;> cases q <;> decide
theorem parity_mul_comm (p q : Parity) : p.mul q = q.mul p := by
  cases p <;> cases q <;> rfl

theorem mem_irrepMul (a b ir : Irrep) :
    ir ∈ irrepMul a b ↔ (((a.l : Int) - b.l).natAbs ≤ ir.l ∧ ir.l ≤ a.l + b.l) ∧ ir.p = a.p.mul b.p := by
  obtain ⟨l, p⟩ := ir
  simp only [irrepMul, List.mem_map, List.mem_range'_1, Irrep.mk.injEq]
  constructor
  · rintro ⟨k, hk, rfl, rfl⟩
    refine ⟨?_, rfl⟩
    split at hk <;> omega
  · rintro ⟨h, rfl⟩
    refine ⟨l, ?_, rfl, rfl⟩
    split <;> omega

theorem irrepMul_map_l (a b : Irrep) :
    (irrepMul a b).map (·.l) = List.range' ((a.l : Int) - b.l).natAbs (2 * min a.l b.l + 1) := by
  simp only [irrepMul, List.map_map]
  have : ((fun x : Irrep => x.l) ∘ fun l => ({ l := l, p := a.p.mul b.p } : Irrep)) = id := rfl
  rw [this, List.map_id]
  congr 1
  · split <;> omega
  · split <;> omega

theorem irrepMul_strictMono (a b : Irrep) : (irrepMul a b).Pairwise (fun u v => u.l < v.l) := by
  have := irrepMul_map_l a b
  have h : ((irrepMul a b).map (·.l)).Pairwise (· < ·) := by
    rw [this]; exact List.pairwise_lt_range'
  rwa [List.pairwise_map] at h

theorem irrepMul_dim_sum (a b : Irrep) : ((irrepMul a b).map Irrep.dim).sum = a.dim * b.dim := by
  have : (irrepMul a b).map Irrep.dim = ((irrepMul a b).map (·.l)).map (fun l => 2 * l + 1) := by
    simp [Irrep.dim, List.map_map, Function.comp_def]
  rw [this, irrepMul_map_l, sum_odd_range']
  simp only [Irrep.dim]
  rcases Nat.le_total a.l b.l with h | h
  · have h1 : ((a.l : Int) - b.l).natAbs = b.l - a.l := by omega
    have h2 : min a.l b.l = a.l := by omega
    rw [h1, h2]
    have : 2 * (b.l - a.l) + (2 * a.l + 1) = 2 * b.l + 1 := by omega
    rw [this]
  · have h1 : ((a.l : Int) - b.l).natAbs = a.l - b.l := by omega
    have h2 : min a.l b.l = b.l := by omega
    rw [h1, h2]
    have : 2 * (a.l - b.l) + (2 * b.l + 1) = 2 * a.l + 1 := by omega
    rw [this, Nat.mul_comm]

theorem irrepMul_comm (a b : Irrep) : irrepMul a b = irrepMul b a := by
  simp only [irrepMul, parity_mul_comm a.p b.p, Nat.add_comm a.l b.l]
  congr 1
  congr 1
  · split <;> split <;> omega
  · split <;> split <;> omega

theorem irrepMul_length (a b : Irrep) : (irrepMul a b).length = 2 * min a.l b.l + 1 := by
  have := congrArg List.length (irrepMul_map_l a b)
  simpa using this

/-! ### iterator -/

theorem iterNth_l (k : Nat) : (iterNth k).l = k / 2 := rfl

theorem iterNth_inj {j k : Nat} (h : iterNth j = iterNth k) : j = k := by
  simp only [iterNth, Irrep.mk.injEq] at h
  obtain ⟨h1, h2⟩ := h
  rw [h1] at h2
  have : j % 2 = k % 2 := by
    rcases Nat.mod_two_eq_zero_or_one j with hj | hj <;> rcases Nat.mod_two_eq_zero_or_one k with hk | hk
    · omega
    · simp [hj, hk] at h2; cases hh : Parity.negOnePow (k / 2) <;> simp [hh, Parity.neg] at h2
    · simp [hj, hk] at h2; cases hh : Parity.negOnePow (k / 2) <;> simp [hh, Parity.neg] at h2
    · omega
  omega

theorem iterator_nodup (lmax : Nat) : (iterator lmax).Nodup := by
  unfold iterator
  exact List.Nodup.map (fun _ _ h => iterNth_inj h) List.nodup_range

theorem mem_iterator (lmax : Nat) (ir : Irrep) : ir ∈ iterator lmax ↔ ir.l ≤ lmax := by
  simp only [iterator, List.mem_map, List.mem_range]
  constructor
  · rintro ⟨k, hk, rfl⟩; rw [iterNth_l]; omega
  · intro h
    obtain ⟨l, p⟩ := ir
    by_cases hp : p = Parity.negOnePow l
    · refine ⟨2 * l, by simp at h; omega, ?_⟩
      simp [iterNth, hp]
    · refine ⟨2 * l + 1, by simp at h; omega, ?_⟩
      have h1 : (2 * l + 1) / 2 = l := by omega
      have h2 : (2 * l + 1) % 2 = 1 := by omega
      simp only [iterNth, h1, h2, Irrep.mk.injEq, true_and]
      cases p <;> cases hh : Parity.negOnePow l <;> simp_all [Parity.neg]

end E3nnVerif.Theory.Irreps
